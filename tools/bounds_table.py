#!/venv/bin/python
"""Print the section-8.2 table of DESIGN.md from the evidence files (quick tier) and the thorough logs under .work/."""
import json, glob, re, os
TH = {}
for log in sorted(glob.glob('/verif/.work/thorough_w*.log')):
    for line in open(log, errors='replace'):
        m = re.match(r'\[(C\d\d)\] tier=thorough executions=(\d+) .* exhaustive=(\w+) wall=([\d.]+)s', line)
        if m:
            TH[m.group(1)] = (int(m.group(2)), m.group(3), float(m.group(4)))
def k(n):
    return '%.1f M' % (n / 1e6) if n >= 1e6 else '%.1f k' % (n / 1e3)
print('| id | quick: executions, wall, phases (executions) | thorough (last full run) |')
print('|---|---|---|')
for f in sorted(glob.glob('/verif/evidence/C*.json')):
    d = json.load(open(f))
    c = d['coverage']
    ph = ', '.join('%s (%s)' % (n, k(p['executions'])) for n, p in c['phases'].items())
    t = TH.get(d['property_id'])
    th = '%s, %.0f s%s' % (k(t[0]), t[2], '' if t[1] == 'True' else ' (a cap was hit, reported in the evidence)') if t else 'see text'
    print('| %s | %s, %.0f s: %s | %s |' % (d['property_id'], k(c['executions']), d['wall_s'], ph, th))
