#!/bin/sh
# validate MANIFEST.json and all evidence files against the schemas
python3-vt - <<'PY'
import json,jsonschema,glob
jsonschema.validate(json.load(open('/verif/MANIFEST.json')),json.load(open('/root/.vp/MANIFEST.schema.json')))
es=json.load(open('/root/.vp/EVIDENCE.schema.json'))
for f in sorted(glob.glob('/verif/evidence/*.json')):
    jsonschema.validate(json.load(open(f)),es)
    print('ok',f)
print('manifest ok')
PY
