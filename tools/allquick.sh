#!/bin/bash
# allquick.sh [ids...]: run the quick tier of every (or the given) check the way MANIFEST registers it and print one
# line per check with its exit code; exits non-zero if any check does.  Run before every commit that touches a check.
cd /verif
IDS=${@:-$(seq -f "C%02g" 1 20)}
BAD=0
for id in $IDS; do
  OUT=$(/venv/bin/python run.py $id --tier quick 2>&1); RC=$?
  LINE=$(echo "$OUT" | grep -a "tier=" | tail -1 | cut -c1-170)
  echo "exit=$RC $LINE"
  if [ $RC -ne 0 ]; then BAD=1; echo "$OUT" | grep -a -E "VIOLATION|HARNESS|NONDET|signature" | head -5 | cut -c1-250; fi
done
exit $BAD
