#!/venv/bin/python
"""Regenerate /verif/MANIFEST.json from the table below (kept valid at all times)."""
import json
import os

HERE = os.path.dirname(os.path.dirname(os.path.abspath(__file__)))

NOTE = ('trusted base: CPython 3.12.1, the explorer in /verif/mc (replay-based choice enumeration, '
        'divergence = hard error), and the reference model named in the technique; pedal is imported from '
        '/repo (PYTHONPATH) so the current working tree is what runs; bounds are in evidence coverage.bounds')

CHECKS = {
    # id: (technique, level text, design ref)
    'C01': ('explicit-state enumeration of all feedback-creation/suppression histories up to depth 3 (quick) / 4 '
            '(thorough) plus the full category x priority pair grid on the real Report + simple/full resolvers; '
            'oracle: reference model of the documented rank order',
            'Every history in the bounded space is executed on the implementation and compared with a reference '
            'model of the documented order; exhaustive inside the alphabet and depth, silent outside it.', '2/C01'),
    'C02': ('explicit-state enumeration of creation/suppression histories (depth 3/4 over a curated alphabet, depth 2 over '
            'the systematic category x correct x valence x state cross) on the real report + simple.resolve; oracle: '
            'conjunction of correct flags over eligible feedbacks',
            'Every bounded history is executed and the correct/success/to_json verdicts compared with the statement; '
            'exhaustive within alphabet and depth.', '2/C02'),
    'C03': ('explicit-state enumeration of score x valence x trigger x flag combinations and sequences, suppression sets, '
            'and the unit_test() partial-credit space on the real resolver; oracle: exact Fraction arithmetic from the statement',
            'Every bounded history is executed and the final score compared with an exact reference; exhaustive within '
            'alphabet and depth.', '2/C03'),
    'C12': ('bounded-exhaustive enumeration of source texts (all strings of <=4/5 tokens over a 20-token alphabet incl. NUL, CR, '
            'FF, NBSP; every single edit of 12 seeds; the same inside 3-section files) and of set_source/next_section/verify '
            'histories, executed on the real verify(); oracle: CPython ast.parse',
            'Every input in the bounded space is run through verify() and compared with the running CPython parser '
            '(accept/reject, line, blank, stored tree); exhaustive within the alphabets and lengths.', '2/C12'),
    'C20': ('explicit-state enumeration of operation histories (depth 3/4) over feedback constructions with keyword mixes, '
            'set_formatter, Class.override for parent/child/grandchild classes, clear_report/contextualize_report and delayed '
            'conditions, on the real MAIN_REPORT; plus every class x keyword mix x formatter once; oracle: invariants + '
            'reference template renderer + import-time class-attribute snapshot',
            'Every bounded history is executed; list membership, truth value, error recording, rendered message and '
            'class-attribute restoration are checked after every operation.', '2/C20'),
    'C15': ('explicit-state enumeration of all run/call/evaluate/clear_output/set_input/queue_input/clear_input histories up '
            'to depth 3/4 over 22 operations on one real Sandbox; oracle: reference model (string accumulator, per-execution '
            'texts from plain CPython execution, FIFO) compared after every operation, echo/default calibrated',
            'Every bounded history is executed and raw output, line list, input queue and per-execution records are '
            'compared with the reference after each step.', '2/C15'),
    'C05': ('explicit-state enumeration of execution histories (depth 2; 3 in thorough) over entry point x termination mode '
            '(normal, exceptions, exits, KeyboardInterrupt, GeneratorExit, BaseException subclass, compile failure) x tracer '
            'style x ambient trace function x threaded on one real Sandbox, plus exhaustive single-fault injection '
            '(sys.monitoring PY_START) at every pedal function entry inside Sandbox._capture_exception; oracle: global-state '
            'invariant after every operation and a probe execution',
            'Every bounded history and every single fault point is executed on the implementation; the borrowed process '
            'state must be identical after every call. Time-outs are covered by the C14 scheduler harness.', '2/C05'),
    'C17': ('bounded-exhaustive enumeration of files (all sequences of <=4/5 lines over 7 line kinds incl. markers, near-markers, '
            'syntax/NameError lines, form feed) x separator pattern x independent/cumulative x ending (stop/resolve) x second '
            'separation pass (x every verify/tifa/run order in thorough), executed on the real source/tifa/sandbox tools with '
            'next_section up to two past the end; oracle: token/line bookkeeping and CPython linenos',
            'Every bounded (file, operation sequence) is executed; chunk contents, concatenation, whole-file line numbers of '
            'every syntax/TIFA/runtime feedback and traceback line, past-the-end behaviour and restoration are checked.', '2/C17'),
    'C04': ('exhaustive product of 54 termination modes (every mapped exception class, user classes with broken __str__/__repr__, '
            'exits, recursion, blocked builtins/modules, compile failures incl. non-SyntaxError ones, exceptions travelling '
            'through student cleanup code) x 6 entry points (run, run(code), call, evaluate, import of a helper file, bad '
            'expression) x threaded x tracer style on the real Sandbox; oracle: plain CPython execution of the same source',
            'Every combination in the finite alphabet is executed; containment, get_exception(), exactly one runtime feedback '
            'naming the class, and the student line are compared with a plain-CPython reference run.', '2/C04'),
    'C08': ('bounded-exhaustive enumeration of programs (all sequences of <=2/3 statements over 45 statements covering every '
            'operator, call form, literal type, node kind and import form) x the full battery of queries (27 operators, call '
            'names, literals, literal types, node kinds, modules) x thresholds around the true count, on the real '
            'ensure_*/prevent_*/find_* functions; oracle: ast.walk over CPython\'s tree with a table from the language reference',
            'Every program x query x threshold in the bounded space is evaluated; firing, counts, returned nodes and reported '
            'line are compared with a plain walk of CPython\'s syntax tree.', '2/C08'),
    'C16': ('exhaustive table: 22 binary operators x ordered pairs of operand values from 13 value classes (int, float incl. nan, '
            'bool, str, list, tuple, dict, set, None, complex, user classes with full/partial/NotImplemented dunders) x proxy '
            'placement (left/right/both), plus 36 unary/builtin operations x every value, applied to real SandboxResult proxies; '
            'oracle: CPython applying the same operator to the raw values',
            'Every cell of the finite table is executed on the real proxy class and compared with the raw operation: same '
            'success/failure, equal unwrapped result and type, nothing on stdout, never NotImplemented.', '2/C16'),
    'C07': ('exhaustive table: 18 binary assert_* classes x ordered operand pairs from a 33-value alphabet (ints, floats near the '
            'tolerance, bools, strings differing by case/punctuation, containers, None, sets, nested, a real call() error, an '
            'opaque object) x 4 wrappings (raw/proxy per side; proxies are real call() results), plus unary, instance/type, '
            'regex and output families and the unit_test() pass/fail/error space; oracle: the Python relation evaluated in a try '
            'on the unwrapped operands, complement pairs, and a conservative reference for assert_equal',
            'Every cell of the finite table is executed on the real assertion classes; silent iff the relation holds, errors and '
            'unevaluable relations fail, complements never agree where exactly one relation holds, equality is order independent.',
            '2/C07'),
    'C19': ('exhaustive table 20 operators x ordered pairs of 10 core-typed variables (two values per type; bool/set/dict added in '
            'thorough), all depth-2 expression trees over 5 typed variables (arithmetic inner operator in quick, any in thorough), '
            'and all nested JSON-like values to depth 2/3, analysed by the real TIFA / pedal.types; oracle: CPython executing the '
            'same expression (TypeError <=> incompatible_types, result conforms to the inferred type) and is_subtype stability',
            'Every cell/tree/value in the bounded space is analysed and executed; a missed TypeError or a nonconforming inferred '
            'type is a violation. Operand values are chosen so that outcomes depend on operand types only.', '2/C19'),
    'C18': ('bounded-exhaustive program families on the real tifa_analysis: a snippet for every Python 3.12 statement/expression '
            'form x 7 containers and every ordered pair of snippets; every registered builtin function and every '
            'str/list/dict/set/file/tuple method (read from the registry at run time) x 17/13 argument shapes incl. keywords; all '
            'sequences of <=3 statements over a flow grammar; each analysed twice on one report (default-argument path), once with '
            'explicit code and once on a fresh report; oracle: returns, completes (subset), same issues, no extra feedback, lines in range',
            'Every program of the enumerated families is analysed repeatedly; raising, internal failure inside the subset, '
            'non-idempotence, non-determinism and out-of-range lines are violations.', '2/C18'),
    'C09': ('bounded-exhaustive flow-grammar programs on the real TIFA with an exhaustive path oracle: exact part = all sequences of '
            '<=2 (3 in thorough) depth-1 statements, every depth-2 statement, if-statements with 2-statement blocks, with every '
            'combination of branch outcomes enumerated symbolically; no-miss part = all sequences of <=2 (3) statements with '
            'if/while/for/def bodies, each executed under CPython for every vector of branch outcomes and 0/1/2 loop iterations',
            'Every program of the bounded grammar is analysed and every one of its execution paths enumerated; per-read '
            'diagnoses and unused-variable reports must equal the path verdicts (exact part) and no observed name error may go '
            'unreported (no-miss part).', '2/C09'),
    'C11': ('bounded-exhaustive programs (all sequences of <=2 statements over 39 statements; all programs of <=4 similar '
            'assignments) x every pattern derivable by the generalisation steps (whole, statement, expression -> ___/__expr__, '
            'identifier -> _var_, all identifiers -> own placeholders, dropped sibling, and compositions) on the real '
            'find_matches, plus explicit-code searches while another submission is loaded; oracle: by construction >=1 match '
            'and a match binding each placeholder to what it replaced',
            'Every (program, derived pattern) pair in the bounded space is executed; a derived pattern that fails to match '
            'or no match with the original bindings is a violation.', '2/C11'),
    'C10': ('bounded-exhaustive (program, pattern) pairs on the real find_matches: all sequences of <=2 (3 in thorough) statements '
            'over 30 statements x an independent 51-pattern alphabet (concrete, ___, repeated _var_, __expr__, multi-statement, '
            'falsy literals); and programs x every derived pattern mutated by one concrete edit whose content is absent; oracle: '
            'an independent reference checker that searches a witness of the embedding relation for every returned match, and '
            '"no match" for mutated patterns',
            'Every pair in the bounded space is executed and every returned match validated by an exhaustive witness search '
            'written from the property statement; a match without witness, or a match of absent content, is a violation.', '2/C10'),
    'C06': ('bounded-exhaustive CS1 programs (all sequences of <=2 statements over 44 statements; 3 statements in thorough) x 4 input '
            'queues run in the real sandbox, and 11 student functions x 26 argument values (non-finite floats, quotes/newlines, '
            'nested containers, a 300-element list, class/builtin objects) x 3 call forms through call(); oracle: the same source '
            'exec()d as __main__ under plain CPython with a FIFO input model (echo/default calibrated) and the direct call',
            'Every program x queue and function x argument in the bounded space is executed both ways; printed text, line list, '
            'student globals, outcome class and line, consumed inputs, return value/exception and leftover temporaries are compared.',
            '2/C06'),
    'C13': ('explicit-state enumeration of grading histories in one live process: all ordered pairs over 132 (quick) / 260 (thorough) '
            'gradings = (20 instructor scripts that override feedback classes, suppress, change formatter, mock, split sections, '
            'crash, open groups, provide TIFA module types, set pools/hooks) x (11 submissions chosen by the collision rule) x 4 '
            'environments, and all triples over a 20-grading core; oracle: differential - each position must equal the same '
            'grading run first in a fresh interpreter',
            'Every bounded history is executed through Bundle.run_ics_bundle in a long-lived process and every position compared '
            'with a fresh-interpreter reference; any difference in error, output, label, title, message, correctness or score is '
            'a violation.', '2/C13'),
    'C14': ('stateless model checking of the real two-thread time-out path under a cooperative scheduler (sys.monitoring LINE points '
            'in pedal/sandbox/sandbox.py, timeout.py and student code; interposed InterruptableThread.start/run/join/is_alive/'
            '_async_raise and sandbox lock): every schedule with the timer firing after any k<=K student steps and up to 1 '
            'pre-emption over all lines / 2 (3 in thorough) over shared-state lines, for busy, printing, exception-swallowing, '
            'blocking and slow-terminating students, followed by a second execution and a drain of the abandoned thread; plus a '
            'free-running sanity pass with real threads',
            'Every interleaving within the stated pre-emption bound and horizon is executed on the implementation; the oracle '
            '(one timeout feedback, TimeoutError kept, clean patch state, later execution and output unaltered, abandoned thread '
            'stops) is evaluated at return, after the next execution and at quiescence. Wall-clock latency is not decided.', '2/C14'),
}

PENDING = ['C02', 'C03', 'C04', 'C05', 'C06', 'C07', 'C08', 'C09', 'C10', 'C11', 'C12', 'C13', 'C14', 'C15',
           'C16', 'C17', 'C18', 'C19', 'C20']


def main():
    checks = []
    for pid, (tech, text, ref) in sorted(CHECKS.items()):
        checks.append({
            'property_id': pid,
            'quick_cmd': '/venv/bin/python /verif/run.py %s --tier quick' % pid,
            'thorough_cmd': '/venv/bin/python /verif/run.py %s --tier thorough' % pid,
            'evidence_file': '/verif/evidence/%s.json' % pid,
            'replay_cmd_template': '/venv/bin/python /verif/run.py %s --replay {path}' % pid,
            'engine': 'mc-explore',
            'level_claimed': {'category': 'model_checking', 'text': text, 'design_ref': 'DESIGN.md section ' + ref},
            'level_note': NOTE,
            'technique': tech,
        })
    man = {
        'version': 1,
        'setup_cmd': '/venv/bin/python -m compileall -q /verif/mc /verif/checks /verif/run.py',
        'hooks': {
            'guard': 'PEDAL_EDU_PEDAL_VERIF',
            'enable': 'no source hooks are needed: checks interpose from outside (sys.monitoring, attribute '
                      'assignment on InterruptableThread); run.py sets PEDAL_EDU_PEDAL_VERIF=1 anyway',
            'baseline_off_cmd': 'cd /repo && /venv/bin/python -m pytest -ra -q -p no:cacheprovider --timeout=900 '
                                '--continue-on-collection-errors',
            'source_commits': [],
            'add_only': True,
        },
        'engines': [{
            'name': 'mc-explore', 'path': '/verif/mc/explore.py',
            'serves_properties': sorted(CHECKS),
            'kind_free_text': 'stateless, replay-based explicit enumeration of choice sequences (operation histories, '
                              'inputs/programs from finite grammars, fault points, thread schedules) executed on the '
                              'real implementation; deviation-bounded mode for schedules and faults; sharded over 16 '
                              'forked workers',
        }],
        'checks': checks,
        'not_applicable': [{'property_id': p, 'reason': 'check not built yet in this session (planned, see DESIGN.md section 6)'}
                           for p in PENDING if p not in CHECKS],
        'notes': 'All checks: /venv/bin/python /verif/run.py <id> --tier quick|thorough. Exit 2 = harness error.',
    }
    with open(os.path.join(HERE, 'MANIFEST.json'), 'w') as f:
        json.dump(man, f, indent=1)
    print('wrote MANIFEST.json with %d checks' % len(checks))


if __name__ == '__main__':
    main()
