#!/bin/bash
# anchor_coverage.sh <id>: run the quick tier serially under coverage.py and report the lines of the
# property's anchor files that no execution reached (a guide for widening the alphabet, not evidence).
ID=$1
export PYTHONHASHSEED=0 PEDAL_VERIF_REEXEC=1 PYTHONPATH=/repo:/verif PYTHONWARNINGS=ignore
mkdir -p /verif/.work
FILES=$(/venv/bin/python -c "
import json
for l in open('/verif/properties.jsonl'):
    p=json.loads(l)
    if p['id']=='$ID': print(','.join('/repo/'+f for f in p['anchors']['files'] if f.endswith('.py')))")
cd /verif/.work
/venv/bin/python -m coverage run --data-file=/verif/.work/cov_$ID --source=/repo/pedal /verif/run.py $ID --workers 1 --no-evidence > /verif/.work/cov_$ID.log 2>&1
/venv/bin/python -m coverage report --data-file=/verif/.work/cov_$ID -m --include="$FILES" > /verif/.work/cov_$ID.txt 2>&1
tail -3 /verif/.work/cov_$ID.txt
