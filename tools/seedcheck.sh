#!/bin/bash
# seedcheck.sh <seed worktree> <property id> <variant a|b> [tier] [extra check ids...]
# Confirms a seeded change (suite unchanged, demo fails with / passes without), stores it under
# /verif/seeded/<id>-<variant>/ and runs the check(s) against it in the scratch worktree /tmp/wt_mut.
set -u
SRC=$1; PID=$2; V=$3; TIER=${4:-quick}; shift 4 2>/dev/null || shift 3
EXTRA="$@"
WT=/tmp/wt_mut
DST=/verif/seeded/$PID-${NAME:-$V}
[ -d $WT ] || git -C /repo worktree add -q --detach $WT main
git -C $WT checkout -q -- . ; git -C $WT checkout -q --detach main
mkdir -p $DST
[ -f $SRC/SEED/$V/patch.diff ] && cp $SRC/SEED/$V/patch.diff $SRC/SEED/$V/demo.py $DST/ && cp $SRC/SEED/$V/notes.md $DST/ 2>/dev/null
if ! git -C $WT apply --check $DST/patch.diff 2>/dev/null; then echo "PATCH DOES NOT APPLY to current main"; exit 3; fi
cd $WT
PYTHONPATH=$WT /venv/bin/python $DST/demo.py >/dev/null 2>&1; CLEAN=$?
git -C $WT apply $DST/patch.diff
SUITE=$(PYTHONPATH=$WT /venv/bin/python -m pytest -q -p no:cacheprovider --timeout=900 --continue-on-collection-errors 2>&1 | tail -1)
PYTHONPATH=$WT /venv/bin/python $DST/demo.py >/dev/null 2>&1; DIRTY=$?
echo "suite: $SUITE"; echo "demo clean exit=$CLEAN  with change exit=$DIRTY"
RES=""
for C in $PID $EXTRA; do
  OUT=$(cd /verif && PEDAL_REPO=$WT /venv/bin/python run.py $C --tier $TIER --no-evidence 2>&1)
  RC=$?
  echo "$OUT" | grep -E "VIOLATION|signature|HARNESS|tier=" | head -8
  RES="$RES $C:exit$RC"
done
git -C $WT checkout -q -- .
cat > $DST/meta.json <<EOF
{"property": "$PID", "variant": "$V", "suite_with_change": "$SUITE", "demo_exit_clean": $CLEAN, "demo_exit_with_change": $DIRTY,
 "checks_run": "$RES", "tier": "$TIER",
 "ran": "git apply patch.diff in scratch worktree /tmp/wt_mut (at /repo main); pytest (BASELINE cmd); demo.py; PEDAL_REPO=/tmp/wt_mut run.py <id> --tier $TIER; reverted"}
EOF
echo "RESULT $PID-${NAME:-$V}:$RES"
