"""C10 -- every CAIT match is a genuine embedding of the pattern in the student's code.

Driver B: student programs x (an independent pattern alphabet, and patterns derived from
the program then mutated by one concrete edit so that their content occurs nowhere).
Oracle: an independent reference checker that searches for a witness of the embedding
relation as the property words it; mutated patterns must not match at all.
"""
import ast
from mc.explore import Phase
from checks import cait_common as cc

PROPERTY = 'C10'
RULE = ('a case is (student program, pattern); every returned match is validated; non-trivial = the pair yields at least '
        'one match (validated by the witness search) or the pattern is a mutated derived pattern that must not match; '
        'distinct by (program, pattern)')
ASSUMPTIONS = ['reference witness search: same ast class and equal (same-type) primitive fields for non-wildcard nodes, '
               'children pair with direct children in order (operands of + and * may swap), _var_ bound consistently and as '
               'in symbol_table, __expr__ bound to exactly the subtree in exp_table',
               'field names are not required to match; the artificial Module wrapper of a multi-statement pattern is exempt',
               'pass is excluded from patterns (documented wildcard)']
EXPLANATION = 'bounded-exhaustive program x pattern pairs on the real find_matches; oracle = independent witness search'

PATS = ["x = 1", "_a_ = _a_ + _b_", "_a_ = _b_ + _a_", "___ = ___ + 2", "print(___)", "print(_v_)", "__e__ + 2",
        "for _i_ in _l_:\n    _t_ = _t_ + _i_", "for _i_ in ___:\n    ___ = ___ + _i_", "if ___:\n    y = 1",
        "if __c__:\n    _v_ = 1\nelse:\n    _v_ = 2", "while _v_ < ___:\n    _v_ = _v_ + 1",
        "def _f_(_a_, _b_):\n    return _a_ * _b_", "def _f_(_a_, _b_):\n    return _b_ * _a_", "_f_(___, 3)",
        "___.append(_x_)", "_l_[0]", "[___, ___]", "_a_ < _b_", "2 * _x_", "_x_ * 2", "_x_ - 2", "2 - _x_",
        "x = 1\ny = x + 2", "_a_ = 1\n_b_ = _a_ + 2", "_a_ = ___\nprint(_a_)", "x = 2", "zzz = 1", "print(zzz)",
        "_a_ = _a_ - _b_", "y = ___", "___ = x", "_a_ = ___\n_a_ = ___", "print(_a_, _b_)", "print(_a_, _a_)",
        "_x_ = 0", "_x_ = ''", "_x_ = False", "range(0, ___)", "_x_ = ___\n_x_ = 0", "_a_ = 1\n_a_ = 2",
        "x = 1.0", "x = True", "_a_ = ___\n_b_ = ___\n_c_ = _a_", "print(__e__, __e__)", "__e__ < __e__",
        "_a_ = ___\n_f_(_a_)", "_a_ = _b_\n_b_ = _a_", "___ + ___ + ___", "_x_ = [___]", "_x_ = {'a': ___}",
        "_a_._m_(___)\n_b_._m_(___)", "_a_._m_(___)\n_a_._k_(___)", "___._m_(_x_)", "_a_._m_(_b_._m_(___))",
        "_c_ = _o_._m_\n_d_ = _o_._m_", "_f_(___)\n_f_(___)", "_f_(_f_(___))",
        "___ = 'name    score'", "___ = 'name\tscore'", "_x_ = __e__",
        "_x_ * _x_", "_x_ + _x_", "(_v_ + 1) + _v_", "_x_ * _y_", "_a_ = _b_ * _b_", "print(_x_ + 1, _x_ + 1)", "_x_ < _x_",
        # ordinary identifiers that only look like placeholders (private-style names): they name themselves
        "_x_ = 1", "print(0)", "[___, ___, 1]",       # int literals against bool literals of the program
        # special-method names in a definition are names, not expression placeholders
        "def __init__(self):\n    pass", "def __str__(self):\n    ___", "class __Meta__:\n    pass",
        "_row_count = 1", "print(_row_count)", "_load_data(___)", "__x = 1", "x_ = 1", "_tmp = 1", "_a_b = ___"]
STM = ["x = 1", "y = x + 2", "print(x)", "total = total + n", "items.append(x)", "for i in items:\n    total = total + i",
       "if x > 2:\n    y = 1\nelse:\n    y = 2", "while x < 10:\n    x = x + 1", "def f(a, b):\n    return a * b",
       "z = f(x, 3)", "w = items[0]", "q = [x, y, 1]", "s = x < y", "y = 2 * x", "y = x - 2", "n = n + total",
       "print(y, x)", "a = 1", "b = 0", "total = 5", "name = 'Ada'", "for i in range(1, 10):\n    print(i)", "flag = True",
       "y = 1", "z = f(y)", "x = x < x", "q = [y]", "r = {'a': x}", "x = 1.0", "print(x + 1, x + 1)",
       "hdr = 'name\tscore'", "items.remove(x)", "names.append(y)", "c = items.count", "d = items.index", "k = items.index(names.count(x))",
       "print(len(items))", "area = width * height", "t = (a + 1) + b", "sq = side * side", "d = x + x", "print(a + 1, b + 1)",
       "_row_count = 1", "found = False", "print(False)", "def __str__(self):\n    pass", "def speak(self):\n    pass",
       "class Point:\n    pass"]


def _setup():
    global cmds, find_matches
    import importlib
    cmds = importlib.import_module('pedal.core.commands')
    from pedal.cait.cait_api import find_matches


def validate(ctx, code, pat, ms, kind):
    for m in ms:
        try:
            ok = cc.witness(pat, m)
        except Exception as e:
            ok = 'reference checker failed: ' + repr(e)[:80]
        cause = 'unexplained'
        if ok is not True:
            # is it one of the two deliberate CAIT rules that the property's wording does not allow?
            for relax, name in ((('expr_repeat',), 'repeated __expr__ placeholder bound to different subtrees'),
                                (('expr_stmt',), 'expression statement of the pattern paired with a non-expression statement'),
                                (('expr_repeat', 'expr_stmt'), 'both deliberate rules')):
                try:
                    if cc.witness(pat, m, relax) is True:
                        cause = name
                        break
                except Exception:
                    pass
        if ok is not True:
            root = m.match_root.astNode
            ppar = ast.parse(pat)
            pk = sorted({type(n).__name__ for n in ppar.body})
            ctx.fail({'symptom': 'match without a witness embedding', 'cause': cause}, program=code, pattern=pat,
                     pattern_statement_kinds=','.join(pk), root_kind=type(root).__name__, pattern_kind=kind,
                     root_line=getattr(root, 'lineno', None), note=str(ok),
                     bindings={k: getattr(v, 'id', '?') for k, v in m.symbol_table.items()})


PRIOR_PATS = [None, "def _f_(_a_, _b_):\n    return _a_ * _b_", "class __Meta__:\n    pass", "def __init__(self):\n    pass",
              "_x_ = 0", "import random"]
AFTER_PROGS = ["import math", "import os.path as osp", "from random import randint",
               "try:\n    x = int(s)\nexcept ValueError as oops:\n    x = 0", "def f(a, b):\n    return a * b",
               "class Point:\n    pass", "total = 5", "for i in items:\n    total = total + i"]
AFTER_PATS = ["import random", "import math", "import os.path as p2", "from random import choice", "from math import randint",
              "try:\n    ___\nexcept ValueError as problem:\n    ___", "def g(a, b):\n    return a * b", "class Line:\n    pass",
              "count = 5", "for j in items:\n    ___"]


def body_after_pattern(ctx):
    """What a search finds does not depend on which patterns were searched for before (in the same process, on
    another submission): one search with a definition/class/other pattern, then the judged search."""
    prior = PRIOR_PATS[ctx.choose(len(PRIOR_PATS), 'searched-before')]
    code = AFTER_PROGS[ctx.choose(len(AFTER_PROGS), 'program')] + "\n"
    pat = AFTER_PATS[ctx.choose(len(AFTER_PATS), 'pattern')]
    ctx.observe(repr((prior, code, pat)))
    ctx.set_sample({'searched_before': prior, 'program': code, 'pattern': pat})
    if prior is not None:
        cmds.clear_report()
        cmds.contextualize_report("def f(a, b):\n    return a * b\nclass Point:\n    pass\nscore = 0\nimport random\n")
        ctx.step(('find_matches', prior))
        find_matches(prior)
    cmds.clear_report()
    cmds.contextualize_report(code)
    ctx.step('find_matches')
    try:
        ms = find_matches(pat)
    except Exception as e:
        ctx.fail({'symptom': 'find_matches raised', 'exception': type(e).__name__}, program=code, pattern=pat)
        return
    if prior is not None:
        ctx.mark_nontrivial(repr((prior, code, pat)))
    ctx.outcome('matches:%d' % min(len(ms), 3))
    validate(ctx, code, pat, ms, 'after another pattern')


def make_alphabet(stms, max_len, pool, load_routes=True):
    def body(ctx):
        n = ctx.choose(max_len, 'n') + 1
        idx = [ctx.choose(len(stms) if i == 0 else min(pool, len(stms)), 's%d' % i) for i in range(n)]
        code = "\n".join(stms[i] for i in idx) + "\n"
        pat = PATS[ctx.choose(len(PATS), 'pattern')]
        # how the submission reached the report: CAIT parses it itself, or takes over the Source tool's parse
        loaded = ('contextualize_report', 'set_source', 'environment given files and the current main code')[
            ctx.choose(3, 'loaded')] if load_routes else 'contextualize_report'
        if loaded.startswith('environment') and n > 1:
            return
        ctx.observe(code + '|' + pat + '|' + loaded)
        ctx.set_sample({'program': code, 'pattern': pat, 'loaded': loaded})
        cmds.clear_report()
        if loaded == 'set_source':
            from pedal.source import set_source
            set_source(code)
        elif loaded.startswith('environment'):
            # the saved files of the assignment (an older text of the main file among them) plus what is in the editor now
            import io, contextlib
            from pedal.environments.vpl import VPLEnvironment
            with contextlib.redirect_stdout(io.StringIO()):
                VPLEnvironment(files={'answer.py': "import random\nsaved = 0\nprint(saved)\n", 'notes.txt': 'n'},
                               main_file='answer.py', main_code=code, skip_tifa=True, skip_run=True)
        else:
            cmds.contextualize_report(code)
        ctx.step('find_matches')
        try:
            ms = find_matches(pat)
        except Exception as e:
            ctx.fail({'symptom': 'find_matches raised', 'exception': type(e).__name__}, program=code, pattern=pat)
            return
        if ms:
            ctx.mark_nontrivial(code + '|' + pat + '|' + loaded)
        ctx.outcome('matches:%d' % min(len(ms), 3))
        validate(ctx, code, pat, ms, 'alphabet')
        # "in the student's code": the tree the matches live in is the tree of the submitted text
        from pedal.cait.cait_api import parse_program
        try:
            searched = ast.dump(parse_program().astNode)
        except Exception as e:
            searched = 'parse_program raised ' + type(e).__name__
        if searched != ast.dump(ast.parse(code)):
            ctx.fail({'symptom': 'the searched tree is not the tree of the submitted text', 'loaded': loaded},
                     program=code, pattern=pat)
    return body


ABSENT_ID = 'zzz9'


def _mutations(pattern, code):
    """One concrete edit of a pattern that makes its content occur nowhere in `code`."""
    out = []
    tree = ast.parse(pattern)
    names = []
    for nd in ast.walk(tree):
        if isinstance(nd, ast.Name) and not nd.id.startswith('_') and nd.id not in names:
            names.append(nd.id)
    for nm in names:
        t = ast.parse(pattern)
        for nd in ast.walk(t):
            if isinstance(nd, ast.Name) and nd.id == nm:
                nd.id = ABSENT_ID
        out.append((ast.unparse(t), 'identifier -> absent'))
    consts = [nd for nd in ast.walk(tree) if isinstance(nd, ast.Constant) and nd.value is not None]
    for k in range(len(consts)):
        t = ast.parse(pattern)
        cs = [nd for nd in ast.walk(t) if isinstance(nd, ast.Constant) and nd.value is not None]
        v = cs[k].value
        cs[k].value = 'zzz' if isinstance(v, str) else (not v if isinstance(v, bool) else 999)
        new = ast.unparse(t)
        if repr(cs[k].value) not in code:
            out.append((new, 'literal -> absent'))
    binops = [nd for nd in ast.walk(tree) if isinstance(nd, ast.BinOp)]
    for k in range(len(binops)):
        t = ast.parse(pattern)
        bs = [nd for nd in ast.walk(t) if isinstance(nd, ast.BinOp)]
        old = type(bs[k].op)
        bs[k].op = ast.FloorDiv() if old is not ast.FloorDiv else ast.Mod()
        if '//' not in code and '%' not in code:
            out.append((ast.unparse(t), 'operator -> absent'))
    cmps = [nd for nd in ast.walk(tree) if isinstance(nd, ast.Compare)]
    for k in range(len(cmps)):
        t = ast.parse(pattern)
        cs = [nd for nd in ast.walk(t) if isinstance(nd, ast.Compare)]
        cs[k].ops = [ast.NotEq() for _ in cs[k].ops]
        if '!=' not in code:
            out.append((ast.unparse(t), 'comparison -> absent'))
    return out


_MC = {}


def make_mutated(stms, max_len, pool):
    def body(ctx):
        n = ctx.choose(max_len, 'n') + 1
        idx = [ctx.choose(len(stms) if i == 0 else min(pool, len(stms)), 's%d' % i) for i in range(n)]
        code = "\n".join(stms[i] for i in idx) + "\n"
        if code not in _MC:
            if len(_MC) > 2000:
                _MC.clear()
            muts = []
            for pat, what, exp in cc.derive(code):
                if what in ('whole', 'statement', 'rename', 'replace ___', 'drop'):
                    for mp, how in _mutations(pat, code):
                        muts.append((mp, what + ' then ' + how))
            seen, res = set(), []
            for m in muts:
                if m[0] not in seen:
                    seen.add(m[0])
                    res.append(m)
            _MC[code] = res
        muts = _MC[code]
        if not muts:
            ctx.abstain()
            return
        pat, how = muts[ctx.choose(len(muts), 'mutation')]
        ctx.observe(code + '|' + pat)
        ctx.set_sample({'program': code, 'pattern': pat, 'mutation': how})
        ctx.mark_nontrivial(code + '|' + pat)
        cmds.clear_report()
        cmds.contextualize_report(code)
        ctx.step('find_matches')
        try:
            ms = find_matches(pat)
        except Exception as e:
            ctx.fail({'symptom': 'find_matches raised', 'exception': type(e).__name__}, program=code, pattern=pat)
            return
        ctx.outcome('mutated:%d' % min(len(ms), 2))
        if ms:
            ctx.fail({'symptom': 'pattern whose content occurs nowhere matches', 'mutation': how.split(' then ')[1]},
                     program=code, pattern=pat, how=how)
    return body


MS_PROG = ["a = 0", "b = 0", "print(a)", "print(b)", "done()"]
MS_PAT = ["_x_ = 0", "print(_x_)", "done()", "_y_ = 0", "print(_y_)", "___"]


def make_ordered(max_prog):
    """Three-statement patterns sharing a placeholder against programs of similar statements: the returned match
    must embed the pattern statements in order."""
    def body(ctx):
        n = ctx.choose(max_prog - 1, 'n') + 2
        code = "\n".join(MS_PROG[ctx.choose(len(MS_PROG), 's%d' % i)] for i in range(n)) + "\n"
        pat = "\n".join(MS_PAT[ctx.choose(len(MS_PAT), 'p%d' % i)] for i in range(3))
        ctx.observe(code + '|' + pat)
        ctx.set_sample({'program': code, 'pattern': pat})
        cmds.clear_report()
        cmds.contextualize_report(code)
        ctx.step('find_matches')
        try:
            ms = find_matches(pat)
        except Exception as e:
            ctx.fail({'symptom': 'find_matches raised', 'exception': type(e).__name__}, program=code, pattern=pat)
            return
        if ms:
            ctx.mark_nontrivial(code + '|' + pat)
        ctx.outcome('matches:%d' % min(len(ms), 3))
        validate(ctx, code, pat, ms, 'ordered-multi')
    return body


SUB_PROG = ["x = q + r\nq = 1\nr = 2", "w = items[0]", "z = f(x, 3)", "y = x + 2", "print(x + 1, x + 1)", "t = (a + 1) + b",
            "k = items.index(names.count(x))", "v = report['Station']['City']", "y = x", "m = grid[i][j + 1]",
            "print(f(x) + 1, y)", "x = y + 2"]
SUB_OUTER = ["_t_ = __e__", "print(__e__, ___)", "_t_ = _f_(__e__, ___)", "_t_ = __e__ + ___", "_v_ = __e__[___]",
             "_v_ = __e__\n_w_ = ___"]
SUB_INNER = ["_l_[__e__]", "__e__ + 1", "_v_ + ___", "___[___]", "_f_(__e__)", "_t_", "__e__", "_v_", "__e__[___]",
             "_g_(___)", "__k__ + __e__", "_w_", "_w_ + ___"]


TWO_PROG = ["total = 0\nfor item in basket:\n    total = total + item\nprint(total)", "y = x + 2\nz = y + x",
            "w = items[0]\nv = items[w]", "t = (a + 1) + b"]
TWO_OUTER = ["for ___ in _v_:\n    __e__", "for _v_ in ___:\n    __e__", "_v_ = __e__", "___ = __e__ + _v_", "_t_ = __e__\n_v_ = ___",
             "_v_ = ___[__e__]", "_t_ = _v_[__e__]"]
TWO_INNER = ["_t_ = _t_ + _v_", "___ = ___ + _v_", "_v_ + ___", "_v_", "___ + _t_", "_t_[___]"]


def _sub_signature(m, inner):
    node = m['__e__'] if '__e__' in m.exp_table else None
    if node is None:
        return None
    return sorted(repr(sorted((k, v.id) for k, v in s2.symbol_table.items())) for s2 in node.find_matches(inner))


def body_two_questions(ctx):
    """Two questions about the same piece of the program: match, look inside the bound node, match again with the
    placeholder names used differently, look inside again.  The second answer is what it is when asked alone."""
    code = TWO_PROG[ctx.choose(len(TWO_PROG), 'program')] + "\n"
    o1 = TWO_OUTER[ctx.choose(len(TWO_OUTER), 'first-outer')]
    o2 = TWO_OUTER[ctx.choose(len(TWO_OUTER), 'second-outer')]
    i1 = TWO_INNER[ctx.choose(len(TWO_INNER), 'first-inner')]
    i2 = TWO_INNER[ctx.choose(len(TWO_INNER), 'second-inner')]
    ctx.observe('|'.join((code, o1, i1, o2, i2)))
    ctx.set_sample({'program': code, 'first': [o1, i1], 'second': [o2, i2]})
    try:
        cmds.clear_report()
        cmds.contextualize_report(code)
        alone = [_sub_signature(m, i2) for m in find_matches(o2)]
        cmds.clear_report()
        cmds.contextualize_report(code)
        ctx.step(('first question', o1, i1))
        for m in find_matches(o1):
            _sub_signature(m, i1)
        ctx.step(('second question', o2, i2))
        after = [_sub_signature(m, i2) for m in find_matches(o2)]
    except Exception as e:
        ctx.fail({'symptom': 'sub-match raised', 'exception': type(e).__name__, 'route': 'two questions'}, program=code,
                 outer=o2, inner=i2, message=str(e)[:200])
        return
    if any(a for a in alone if a):
        ctx.mark_nontrivial('|'.join((code, o1, i1, o2, i2)))
    ctx.outcome('same' if alone == after else 'differs')
    if alone != after:
        ctx.fail({'symptom': 'a sub-match depends on what was asked about the same node before'}, program=code,
                 first_question=[o1, i1], second_question=[o2, i2], asked_alone=alone, asked_second=after)


def make_submatch():
    """The secondary entry points: a pattern matched *below a node bound by an earlier match* (CaitNode.find_matches,
    which continues from that match by default) and find_matches(..., use_previous=match).  Every returned sub-match
    must itself be a genuine embedding of the sub-pattern at its root, with its own bindings, and must agree with the
    earlier match on every _var_ name they share."""
    def body(ctx):
        n = ctx.choose(2, 'n') + 1
        code = "\n".join(SUB_PROG[ctx.choose(len(SUB_PROG), 's%d' % i)] for i in range(n)) + "\n"
        outer = SUB_OUTER[ctx.choose(len(SUB_OUTER), 'outer')]
        inner = SUB_INNER[ctx.choose(len(SUB_INNER), 'inner')]
        route = ('node.find_matches', 'find_matches(use_previous=)', 'node.find_matches(use_previous=False)')[ctx.choose(3, 'route')]
        ctx.observe('|'.join((code, outer, inner, route)))
        ctx.set_sample({'program': code, 'outer': outer, 'inner': inner, 'route': route})
        cmds.clear_report()
        cmds.contextualize_report(code)
        ctx.step('find_matches(outer)')
        try:
            ms = find_matches(outer)
        except Exception as e:
            ctx.fail({'symptom': 'find_matches raised', 'exception': type(e).__name__}, program=code, pattern=outer)
            return
        validate(ctx, code, outer, ms, 'sub-outer')
        total = 0
        for m in ms:
            prev_vars = {k: v.id for k, v in m.symbol_table.items()}
            prev_dump = {k: ast.dump(v.astNode) for k, v in m.exp_table.items()}
            node = m['__e__'] if '__e__' in m.exp_table else None     # the documented access path (it ties the node to its match)
            ctx.step(route)
            try:
                if route == 'node.find_matches':
                    if node is None:
                        continue
                    subs = node.find_matches(inner)
                elif route == 'node.find_matches(use_previous=False)':
                    if node is None:
                        continue
                    subs = node.find_matches(inner, use_previous=False)
                else:
                    subs = find_matches(inner, use_previous=m)
            except Exception as e:
                ctx.fail({'symptom': 'sub-match raised', 'exception': type(e).__name__, 'route': route}, program=code,
                         outer=outer, inner=inner, message=str(e)[:200])
                continue
            total += len(subs)
            # the singular form of the same call must agree with the plural one
            if node is not None and route.startswith('node.find_matches'):
                try:
                    one = node.find_match(inner, use_previous=not route.endswith('False)'))
                    if (one is None) != (len(subs) == 0):
                        ctx.fail({'symptom': 'find_match() and find_matches() disagree on whether the pattern occurs',
                                  'route': route}, program=code, outer=outer, inner=inner, plural=len(subs),
                                 singular=one is not None)
                except Exception as e:
                    ctx.fail({'symptom': 'find_match raised', 'exception': type(e).__name__, 'route': route},
                             program=code, outer=outer, inner=inner)
            before = len(ctx.fails)
            validate(ctx, code, inner, subs, 'sub-inner')
            for sig, det in ctx.fails[before:]:
                sig['route'] = route
                det['outer'] = outer
            for m2 in subs:
                if route.endswith('False)'):
                    continue
                for k, v in m2.symbol_table.items():
                    if k in prev_vars and prev_vars[k] != v.id and k in [nd.id for nd in ast.walk(ast.parse(inner)) if isinstance(nd, ast.Name)]:
                        ctx.fail({'symptom': 'sub-match binds a shared _var_ differently from the match it continues',
                                  'route': route}, program=code, outer=outer, inner=inner, name=k, earlier=prev_vars[k], now=v.id)
                if node is not None and route == 'node.find_matches':
                    inside = {id(x) for x in ast.walk(node.astNode)}
                    if id(m2.match_root.astNode) not in inside:
                        ctx.fail({'symptom': 'sub-match is rooted outside the node it was searched in', 'route': route},
                                 program=code, outer=outer, inner=inner)
            # the earlier match must not be modified by continuing from it
            if {k: v.id for k, v in m.symbol_table.items()} != prev_vars or \
                    {k: ast.dump(v.astNode) for k, v in m.exp_table.items()} != prev_dump:
                ctx.fail({'symptom': 'continuing from a match changed that match', 'route': route}, program=code,
                         outer=outer, inner=inner)
        if total:
            ctx.mark_nontrivial('|'.join((code, outer, inner, route)))
        ctx.outcome('sub:%d' % min(total, 3))
    return body


def bounds(tier):
    return {'programs': 'all sequences of <=2 statements over %d statements (second from the first %d)' % (len(STM), 14 if tier == 'quick' else len(STM)),
            'patterns': len(PATS), 'sub_matches': '%d programs (<=2 statements) x %d outer x %d inner patterns x 3 routes' % (len(SUB_PROG), len(SUB_OUTER), len(SUB_INNER)),
            'mutations': 'identifier/literal/operator/comparison -> absent, on whole/statement/rename/'
                                                 'wildcard/drop derivations'}


def phases(tier):
    pool = 14 if tier == 'quick' else len(STM)
    ph = [Phase('alphabet', make_alphabet(STM, 2, pool), setup=_setup, chunk=400, describe='program x independent pattern alphabet'),
          Phase('mutated', make_mutated(cc.STM, 2, 8 if tier == 'quick' else 20), setup=_setup, chunk=400,
                describe='program x derived patterns mutated by one concrete edit (must not match)'),
          Phase('ordered-multi', make_ordered(4 if tier == 'quick' else 5), setup=_setup, chunk=400,
                describe='3-statement patterns with shared placeholders x programs of <=4/5 similar statements')]
    ph.append(Phase('after-another-pattern', body_after_pattern, setup=_setup, chunk=50,
                    describe='a search made after a search with a definition / class / import pattern on another submission'))
    ph.append(Phase('two-questions', body_two_questions, setup=_setup, chunk=100,
                    describe='match + look inside the bound node, twice, with the placeholder names used differently: the '
                             'second answer equals the answer when asked alone'))
    ph.append(Phase('sub-matches', make_submatch(), setup=_setup, chunk=400,
                    describe='pattern matched below a node bound by an earlier match / continued with use_previous'))
    if tier == 'thorough':
        ph.append(Phase('alphabet-3', make_alphabet(STM, 3, 10), setup=_setup, chunk=400,
                        describe='programs of 3 statements (2nd/3rd from the first 10) x pattern alphabet'))
    return ph
