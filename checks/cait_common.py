"""Shared pieces for the CAIT checks (C10, C11): program alphabets, pattern derivation by
the generalisation steps of C11 (text based: never deep-copies a tree, see DESIGN 1.7),
and the independent reference checker of the embedding relation of C10."""
import ast
import re

STM = ["x = 1", "y = x + 2", "print(x)", "print(x, y)", "total = total + n", "items.append(x)",
       "for i in items:\n    total = total + i", "if x > 2:\n    y = 1\nelse:\n    y = 2",
       "while x < 10:\n    x = x + 1", "def f(a, b):\n    return a * b", "z = f(x, 3)", "z = f(x, key=3)",
       "w = items[0]", "q = [x, y, 1]", "r = {'a': x}", "s = x < y < 3", "t = not (x and y)",
       "class C:\n    def m(self):\n        return self.v", "u = obj.attr.sub", "v = -x ** 2",
       "try:\n    x = int(s)\nexcept ValueError:\n    x = 0", "import math", "k = math.sqrt(x)", "name = input('n')",
       "for i in range(3):\n    for j in range(i):\n        print(i, j)", "if a:\n    pass\nelif b:\n    x = 1",
       "with open('f') as fh:\n    data = fh.read()", "return_val = lambda q: q + 1", "x += 1", "del x",
       "assert x == 1", "g = [i * 2 for i in items if i]", "print('a' + str(x))", "x, y = y, x", "y = 0",
       "total = 5", "name = ''", "for i in range(0, 10):\n    print(i)", "flag = False",
       # comments (CPython's parser ignores them all; "# type:" ones only mean something to a type-comment-aware parse)
       "# type: number of items\nn = 0", "d = f(x,  # type: the first one\n      3)", "m = 1  # type: ignore",
       # string literals over several lines, one of which holds only blanks (an editor's auto-indent inside a docstring)
       "def doc():\n    \'\'\'first\n    \n    last\'\'\'\n    return 1", "banner = \'\'\'a\n  \nb\'\'\'"]
CHAIN = ["x = 0", "y = 0", "p = y", "q = x", "p = x", "q = y + 1"]


def expr_nodes(tree):
    return [n for n in ast.walk(tree) if isinstance(n, ast.expr)
            and not isinstance(getattr(n, 'ctx', None), (ast.Store, ast.Del))]


def _replace_positions(code, positions, names):
    """Re-parse `code` and replace the expression nodes at `positions` (indices into expr_nodes) by Name(names[i]).
    Returns (pattern text, [ast.dump of each replaced node]) or None if a replaced node contains another."""
    tree = ast.parse(code)
    nodes = expr_nodes(tree)
    targets = [nodes[p] for p in positions]
    for a in targets:
        for b in targets:
            if a is not b and any(n is b for n in ast.walk(a)):
                return None
    dumps = [ast.dump(t) for t in targets]
    tmap = {id(t): nm for t, nm in zip(targets, names)}

    class R(ast.NodeTransformer):
        def visit(self, node):
            if id(node) in tmap:
                return ast.copy_location(ast.Name(id=tmap[id(node)], ctx=ast.Load()), node)
            return super().visit(node)
    t2 = R().visit(tree)
    try:
        pat = ast.unparse(t2)
        ast.parse(pat)
    except Exception:
        return None
    return pat, dumps


def _rename(code, mapping):
    tree = ast.parse(code)
    for nd in ast.walk(tree):
        if isinstance(nd, ast.Name) and nd.id in mapping:
            nd.id = mapping[nd.id]
    return ast.unparse(tree)


def identifiers(code):
    tree = ast.parse(code)
    seen = []
    for nd in ast.walk(tree):
        if isinstance(nd, ast.Name) and nd.id not in seen:
            seen.append(nd.id)
    return seen


def _drop(code, i):
    tree = ast.parse(code)
    del tree.body[i]
    return ast.unparse(tree)


def derive(code, thorough=False, chain=False):
    """All patterns derivable from `code` by the listed generalisation steps.
    Each item: (pattern, what, expected bindings {placeholder: ('id', name) | ('dump', ast dump)})"""
    out = []
    tree = ast.parse(code)
    out.append((code, 'whole', {}))
    for st in tree.body:
        out.append((ast.unparse(st), 'statement', {}))
    n_expr = len(expr_nodes(tree))
    for idx in range(n_expr):
        for nm in ('___', '__e__'):
            r = _replace_positions(code, [idx], [nm])
            if r:
                out.append((r[0], 'replace ' + nm, {'__e__': ('dump', r[1][0])} if nm == '__e__' else {}))
    ids = identifiers(code)
    for ident in ids:
        out.append((_rename(code, {ident: '_v_'}), 'rename', {'_v_': ('id', ident)}))
    if len(tree.body) > 1:
        for i in range(len(tree.body)):
            out.append((_drop(code, i), 'drop', {}))
    # abstraction of every identifier at once, each to its own placeholder
    full = {ident: '_v%d_' % k for k, ident in enumerate(ids)}
    if ids:
        out.append((_rename(code, full), 'rename-all', {v: ('id', k) for k, v in full.items()}))
    if thorough or chain:
        for a in range(len(ids)):
            for b in range(a + 1, len(ids)):
                m = {ids[a]: '_v_', ids[b]: '_w_'}
                out.append((_rename(code, m), 'rename-2', {'_v_': ('id', ids[a]), '_w_': ('id', ids[b])}))
        for a in range(n_expr):
            for b in range(a + 1, n_expr):
                for nms in (('___', '___'), ('__e__', '__f__'), ('___', '__e__')):
                    r = _replace_positions(code, [a, b], list(nms))
                    if r:
                        exp = {}
                        for nm, d in zip(nms, r[1]):
                            if nm != '___':
                                exp[nm] = ('dump', d)
                        out.append((r[0], 'replace-2', exp))
        # compositions of two steps: rename then wildcard / drop then rename-all / drop then wildcard
        for ident in ids[:3]:
            renamed = _rename(code, {ident: '_v_'})
            for idx in range(len(expr_nodes(ast.parse(renamed)))):
                r = _replace_positions(renamed, [idx], ['___'])
                if r and '_v_' in r[0]:
                    out.append((r[0], 'rename+wildcard', {'_v_': ('id', ident)}))
    if chain and len(tree.body) > 1:
        for i in range(len(tree.body)):
            dropped = _drop(code, i)
            ids2 = identifiers(dropped)
            full2 = {ident: '_v%d_' % k for k, ident in enumerate(ids2)}
            if ids2:
                pat = _rename(dropped, full2)
                out.append((pat, 'drop+rename-all', {v: ('id', k) for k, v in full2.items()}))
                for idx in range(len(expr_nodes(ast.parse(pat)))):
                    r = _replace_positions(pat, [idx], ['___'])
                    if r:
                        exp = {v: ('id', k) for k, v in full2.items() if v in r[0]}
                        out.append((r[0], 'drop+rename-all+wildcard', exp))
    seen, res = set(), []
    for pat, what, exp in out:
        key = (pat, repr(sorted(exp.items())))
        if key not in seen:
            seen.add(key)
            res.append((pat, what, exp))
    return res


def binding_ok(match, exp):
    """Does this match bind every placeholder to what it replaced?"""
    for k, (kind, v) in exp.items():
        try:
            if kind == 'id':
                got = match[k]
                if getattr(got, 'id', None) != v:
                    return False
            else:
                node = match.exp_table[k].astNode
                # a placeholder standing as a whole statement may be bound to the expression statement
                if ast.dump(node) != v and not (isinstance(node, ast.Expr) and ast.dump(node.value) == v):
                    return False
        except Exception:
            return False
    return True


# ---- reference checker of the embedding relation (C10) ----------------------------------------

def is_wild(n):
    return isinstance(n, ast.Name) and n.id == '___'


def is_expr_ph(n):
    return isinstance(n, ast.Name) and re.match(r'^__.*__$', n.id) and n.id != '___'


def is_var_ph(name):
    return isinstance(name, str) and re.match(r'^_[^_].*_$', name)


def children(n):
    out = []
    for f, v in ast.iter_fields(n):
        if isinstance(v, ast.AST):
            out.append(v)
        elif isinstance(v, list):
            out.extend(x for x in v if isinstance(x, ast.AST))
    return out


def prims(n):
    out = []
    for f, v in ast.iter_fields(n):
        if isinstance(v, ast.AST) or f in ('ctx', 'kind', 'type_comment', 'lineno'):
            continue
        if isinstance(v, list):
            out.append((f, tuple(x for x in v if not isinstance(x, ast.AST))))
        else:
            out.append((f, v))
    return out


def _prim_equal(pv, sv):
    if isinstance(pv, tuple) and isinstance(sv, tuple):
        return len(pv) == len(sv) and all(_prim_equal(a, b) for a, b in zip(pv, sv))
    return type(pv) is type(sv) and pv == sv


def embeds(p, s, binds, relax=()):
    """yield extended bindings under which pattern node p embeds at student node s"""
    if isinstance(p, ast.Expr) and isinstance(p.value, ast.Name) and (is_wild(p.value) or is_expr_ph(p.value)):
        if is_wild(p.value):
            yield binds
            return
        key = p.value.id
        tgt = ast.dump(s)
        alt = ast.dump(s.value) if isinstance(s, ast.Expr) else None
        if key in binds:
            if binds[key] in (tgt, alt):
                yield binds
        else:
            for t in {tgt, alt} - {None}:
                yield {**binds, key: t}
        return
    if is_wild(p):
        yield binds
        return
    if is_expr_ph(p):
        key, tgt = p.id, ast.dump(s)
        if 'expr_repeat' in relax:
            # the deliberate CAIT rule: a repeated __expr__ need not bind equal subtrees -- but what it is bound to
            # must still be the subtree at one of its positions (collected here, judged in _bind_ok)
            allk = key + '\0positions'
            yield {**binds, key: binds.get(key, tgt), allk: binds.get(allk, ()) + (tgt,)}
            return
        if binds.get(key, tgt) == tgt:
            yield {**binds, key: tgt}
        return
    if isinstance(p, ast.expr_context):
        yield binds
        return
    if type(p) is not type(s):
        if 'expr_stmt' in relax and isinstance(p, ast.Expr) and isinstance(s, ast.stmt):
            # CAIT's documented rule: an expression statement of the pattern matches inside any statement
            for c in children(s):
                yield from embeds(p.value, c, binds, relax)
        return
    b = dict(binds)
    for (f, pv), (f2, sv) in zip(prims(p), prims(s)):
        if pv is None:
            continue
        if is_var_ph(pv):
            if not isinstance(sv, str):
                return
            if b.get(pv, sv) != sv:
                return
            b[pv] = sv
        elif not _prim_equal(pv, sv):
            return
    pc = [c for c in children(p) if not isinstance(c, ast.expr_context)]
    sc = [c for c in children(s) if not isinstance(c, ast.expr_context)]

    def rec(i, j, bb):
        if i == len(pc):
            yield bb
            return
        for jj in range(j, len(sc)):
            for b2 in embeds(pc[i], sc[jj], bb, relax):
                yield from rec(i + 1, jj + 1, b2)
    yield from rec(0, 0, b)
    if isinstance(p, ast.BinOp) and isinstance(p.op, (ast.Add, ast.Mult)) and len(pc) == 3 and len(sc) == 3:
        for b1 in embeds(pc[0], sc[2], b, relax):
            for b2 in embeds(pc[1], sc[1], b1, relax):
                yield from embeds(pc[2], sc[0], b2, relax)


def trim(n):
    while isinstance(n, (ast.Module, ast.Expr)) and len(children(n)) == 1:
        n = children(n)[0]
    return n


def witness(pattern, match, relax=()):
    """Is the returned match witnessed by a genuine embedding at match_root?

    A multi-statement pattern is parsed as a Module; CAIT roots such a match at the student node whose
    statement list holds the matched statements (the Module itself, or e.g. a For).  The artificial
    Module wrapper is exempt from the same-kind rule: its statements must embed, in order, into the
    direct child statements of ONE statement list of match_root."""
    p = trim(ast.parse(pattern))
    s = match.match_root.astNode
    want = {k: v.id for k, v in match.symbol_table.items()}
    want.update({k: v[0].id for k, v in match.func_table.items()})
    if isinstance(p, ast.Module):
        pstm = p.body
        for field, seq in ast.iter_fields(s):
            if not isinstance(seq, list) or not seq or not all(isinstance(x, (ast.stmt, ast.excepthandler)) for x in seq):
                continue

            def rec(i, j, bb):
                if i == len(pstm):
                    yield bb
                    return
                for jj in range(j, len(seq)):
                    for b2 in embeds(pstm[i], seq[jj], bb, relax):
                        yield from rec(i + 1, jj + 1, b2)
            for b in rec(0, 0, {}):
                if _bind_ok(b, want, match, relax):
                    return True
        return False
    for b in embeds(p, s, {}, relax):
        if _bind_ok(b, want, match, relax):
            return True
    return False


def _bind_ok(b, want, match, relax=()):
    if not all(b.get(k) == v for k, v in want.items() if k in b):
        return False
    for k, v in match.exp_table.items():
        d = ast.dump(v.astNode)
        if 'expr_repeat' in relax:
            pos = b.get(k + '\0positions')
            if pos is not None and d not in pos and not (isinstance(v.astNode, ast.Expr) and ast.dump(v.astNode.value) in pos):
                return False
            continue
        if k in b and b[k] != d and not (isinstance(v.astNode, ast.Expr) and b[k] == ast.dump(v.astNode.value)):
            return False
    return True
