"""C04 -- student-code failures are contained and reported, never raised into the grader.

Driver B x D: the full product termination mode x entry point x threaded x tracer style,
executed on the real sandbox; oracle = plain CPython execution of the same source
(exception class, student line) + "exactly one runtime feedback naming that class".
"""
import sys
import traceback
from mc.explore import Phase
from checks import sandbox_common as sc

PROPERTY = 'C04'
RULE = ('a case is (termination mode, entry point, threaded, tracer style); every case makes student code fail, so '
        'every case is non-trivial; distinct by the tuple')
ASSUMPTIONS = ['reference = the same source executed by plain exec() under CPython: exception class and innermost '
               'student-file line', 'for blocked builtins/modules the exception class is not predicted, only containment, '
               'get_exception() and the single runtime feedback', 'threaded runs use real threads with a 20 s limit '
               '(student code ends at once; time-outs belong to C14)']
EXPLANATION = 'exhaustive product of a finite alphabet of termination modes and entry points on the real Sandbox'

BLOCKED = ('compile()', 'eval()', 'exec()', 'globals()', 'open py', 'open w', 'import pedal', 'from pedal', 'OSError',
           'exit()', 'quit()') + tuple(m for m in sc.MODES if m.startswith('open:'))
WRITES = ('open w',) + tuple(m for m in sc.MODES if m.startswith('open:'))    # never executed by the reference
ENTRIES = ['run', 'run-code', 'call', 'evaluate', 'import', 'evaluate-expr']
TRACERS = ['none', 'native', 'calls']
MODE_NAMES = list(sc.MODES)


def _setup():
    sc.lazy()
    # the file the write-mode programs name exists (in the scratch working directory): opening it for update would
    # succeed if the sandbox let the call through
    with open('made_by_student.txt', 'w') as f:
        f.write('kept\n')


def _expected(mode, entry, main, files):
    """(class name or None if not predicted, student line or None, file)"""
    code = sc.MODES[mode]
    if mode in WRITES:
        # refused by the sandbox itself, whatever exists on disk: the failure is the refusal
        return 'RuntimeError', None, 'answer.py'
    if mode in sc.SYSTEM_EXIT and mode not in BLOCKED:
        cls = 'SystemExit'
    elif mode in BLOCKED:
        cls = None
    else:
        cls = 'from-reference'
    if entry == 'import':
        rcls, line = sc.reference_outcome(files['helper.py'], 'helper.py')
        fname = 'helper.py'
    elif entry in ('call', 'evaluate', 'evaluate-expr'):
        ns = {'__name__': '__main__', 'input': lambda prompt='': '6'}
        try:
            exec(compile(main, 'answer.py', 'exec'), ns)
        except BaseException:   # noqa
            return None, None, 'answer.py'
        import io
        saved = sys.stdout
        sys.stdout = io.StringIO()
        rcls = line = None
        try:
            try:
                ns['target']()
            finally:
                sys.stdout = saved
        except BaseException as e:   # noqa
            rcls = sc.cls_name(e)
            tb = traceback.extract_tb(sys.exc_info()[2])
            # "raised on a student line": the innermost frame belongs to the student's file
            line = tb[-1].lineno if tb and tb[-1].filename == 'answer.py' else None
        fname = 'answer.py'
    else:
        rcls, line = sc.reference_outcome(main, 'answer.py')
        fname = 'answer.py'
    if cls == 'from-reference':
        cls = rcls
    if mode in BLOCKED or mode in sc.SYSTEM_EXIT and mode in ('exit()', 'quit()'):
        line = None if mode in BLOCKED else line
    return cls, line, fname


def body(ctx):
    mode = MODE_NAMES[ctx.choose(len(MODE_NAMES), 'mode')]
    entry = ENTRIES[ctx.choose(len(ENTRIES), 'entry')]
    threaded = bool(ctx.choose(2, 'threaded'))
    tracer = TRACERS[ctx.choose(len(TRACERS), 'tracer')]
    case = {'mode': mode, 'entry': entry, 'threaded': threaded, 'tracer': tracer, 'code': sc.MODES[mode]}
    compile_fail = mode in sc.COMPILE_FAIL
    if entry in ('call', 'evaluate', 'evaluate-expr') and compile_fail:
        ctx.info['not_applicable_combination'] += 1
        return
    ctx.observe(repr((mode, entry, threaded, tracer)))
    ctx.mark_nontrivial(repr((mode, entry, threaded, tracer)))
    ctx.set_sample(case)
    e2 = 'evaluate' if entry == 'evaluate-expr' else entry
    main, files = sc.build_files(sc.MODES[mode], e2)
    exp_cls, exp_line, exp_file = _expected(mode, entry, main, files)
    if entry == 'import' and ctx.choose(2, 'attached-as-a-second-submission'):
        # another student's (healthy) files were graded on this report first; this submission is attached without clearing
        case['second_submission_on_the_report'] = True
        sc.contextualize("import helper\n", {'answer.py': "import helper\n", 'helper.py': "fine = 1\n"})
        sc.sb_cmds.run()
        sc.cmds.contextualize_report(sc.Submission(files=files, main_file='answer.py', main_code=main), clear=False)
        sb = sc.sb_cmds.get_sandbox()
        sb.data.pop('helper', None)
        sb.clear_exception()
    else:
        sb = sc.contextualize(main, files)
    sb.threaded = threaded
    sb.tracer_style = tracer
    sb.allowed_time = 20
    sb.set_input([6, 2.5])            # the instructor queued numbers (inside a list) for a program that may read them
    snap = sc.GlobalState()
    try:
        if e2 in ('call', 'evaluate'):
            sc.sb_cmds.run()
            if sb.exception is not None:
                ctx.fail({'symptom': 'defining the student function failed', 'mode': mode}, case=case, exc=repr(sb.exception))
                return
        n0 = len(sc.MAIN_REPORT.feedback)
        ctx.step((entry, mode))
        if entry == 'evaluate-expr':
            if mode in ('Syntax', 'UntermStr'):
                return
            result = sc.sb_cmds.evaluate('target() +')     # a bad expression around the student call
            exp_cls, exp_line = 'SyntaxError', None
        else:
            result = sc.perform(entry, main)
    except BaseException as e:   # noqa
        tb = traceback.extract_tb(sys.exc_info()[2])
        inner = [f for f in tb if '/pedal/' in f.filename]
        ctx.fail({'symptom': 'exception escaped into the grader', 'exception': sc.cls_name(e), 'mode': mode,
                  'entry': 'import' if entry == 'import' else 'direct', 'threaded': threaded},
                 case=case, message=str(e)[:200],
                 at='%s:%s' % (inner[-1].filename.split('/pedal/')[-1], inner[-1].lineno) if inner else None)
        snap.force()
        ctx.outcome('escaped')
        return
    d = snap.diff()
    if d:
        snap.force()
    new = [f for f in sc.MAIN_REPORT.feedback[n0:] if f.category == 'runtime']
    exc = sc.sb_cmds.get_exception()
    if exc is None:
        ctx.fail({'symptom': 'failure not available as the sandbox exception', 'mode': mode, 'threaded': threaded,
                  'entry': 'import' if entry == 'import' else 'direct'}, case=case, feedbacks=len(new))
        ctx.outcome('no-exception')
        return
    from pedal.sandbox.result import unwrap_value
    if e2 in ('call', 'evaluate') and entry != 'evaluate-expr' and unwrap_value(result) is not unwrap_value(exc):
        # what call()/evaluate() hand back for a failed call is the failure, never a value
        ctx.fail({'symptom': 'a failed call returned something other than the failure', 'mode': mode, 'entry': entry},
                 case=case, returned=repr(result)[:80])
    raw = unwrap_value(exc) if hasattr(exc, '_actual_value') or type(exc).__name__ == 'SandboxResult' else exc
    got_cls = sc.cls_name(raw)
    if len(new) != 1:
        ctx.fail({'symptom': 'not exactly one runtime feedback', 'count': len(new), 'mode': mode, 'threaded': threaded},
                 case=case, labels=[f.label for f in new])
        ctx.outcome('feedback-count-%d' % len(new))
        return
    fb = new[0]
    if exp_cls is not None:
        if got_cls != exp_cls and exp_cls not in [c.__name__ for c in type(raw).__mro__]:
            ctx.fail({'symptom': 'sandbox exception has the wrong class', 'mode': mode, 'want': exp_cls, 'got': got_cls},
                     case=case)
        name = str(fb.fields.get('exception_name', ''))
        title = str(fb.title)
        if exp_cls not in name and exp_cls not in title and got_cls not in name:
            ctx.fail({'symptom': 'runtime feedback does not name the exception class', 'mode': mode}, case=case,
                     exception_name=name, title=title, want=exp_cls)
    # code that does not compile has no frame of its own: the line is the one CPython's SyntaxError names.  When the
    # failing file is an imported helper, the import statement of the main file is an equally defensible location
    # (it is the student line that raised), so that combination is not judged.
    if exp_line is not None and exp_cls is not None and entry != 'evaluate-expr' and not (compile_fail and entry == 'import'):
        got_line = fb.location.line if fb.location is not None else None
        if got_line != exp_line:
            ctx.fail({'symptom': 'feedback not located on the student line', 'mode': mode, 'entry': entry,
                      'threaded': threaded, 'tracer': tracer}, case=case, want=exp_line, got=got_line)
    ctx.outcome(got_cls)


PAIR_MODES = ['ValueError', 'NameError', 'FalsyLen', 'sys.exit', 'exit()', 'BadStr', 'Recursion', 'import pedal', 'open w', 'Syntax',
              'NoArgs:KeyError', 'DeepChain', 'CloseStdout', 'Finally', 'AfterPrint']
PAIR_ENTRIES = ['run-code', 'call', 'evaluate']


def body_pairs(ctx):
    """Two failing executions in the same sandbox: each call must add exactly one runtime feedback naming its own
    failure, and the second must not be confused by the first."""
    ops = []
    for i in range(2):
        m = PAIR_MODES[ctx.choose(len(PAIR_MODES), 'mode%d' % i)]
        e = PAIR_ENTRIES[ctx.choose(len(PAIR_ENTRIES), 'entry%d' % i)]
        ops.append((m, e))
    threaded = bool(ctx.choose(2, 'threaded'))
    # code handed to run() under the submission's own file name, or under another name (instructor-provided tests)
    fname = ('answer.py', 'student_tests.py')[ctx.choose(2, 'filename')]
    if any(m in sc.COMPILE_FAIL and e != 'run-code' for m, e in ops):
        return
    funcs = "".join("def t_%d():\n%s\n    return 1\n" % (i, "\n".join("    " + l for l in sc.MODES[m].split("\n")))
                    for i, m in enumerate(PAIR_MODES) if m not in sc.COMPILE_FAIL)
    sb = sc.contextualize(funcs, {'answer.py': funcs})
    sb.threaded = threaded
    sb.allowed_time = 20
    sc.sb_cmds.run()
    case = {'ops': ops, 'threaded': threaded, 'filename': fname}
    ctx.observe(repr(case))
    ctx.set_sample(case)
    ctx.mark_nontrivial(repr(case))
    for k, (m, e) in enumerate(ops):
        n0 = len(sc.MAIN_REPORT.feedback)
        ctx.step((e, m))
        try:
            if e == 'run-code':
                sc.sb_cmds.run(sc.MODES[m], filename=fname)
            elif e == 'call':
                sc.sb_cmds.call('t_%d' % PAIR_MODES.index(m))
            else:
                sc.sb_cmds.evaluate('t_%d()' % PAIR_MODES.index(m))
        except BaseException as ex:   # noqa
            ctx.fail({'symptom': 'exception escaped into the grader', 'exception': type(ex).__name__, 'mode': m,
                      'entry': 'direct', 'threaded': threaded, 'position': k}, case=case, message=str(ex)[:150])
            return
        new = [f for f in sc.MAIN_REPORT.feedback[n0:] if f.category == 'runtime']
        if sc.sb_cmds.get_exception() is None or len(new) != 1:
            ctx.fail({'symptom': 'not exactly one runtime feedback', 'count': len(new), 'mode': m, 'threaded': threaded,
                      'position': k}, case=case, labels=[f.label for f in new], exception=repr(sc.sb_cmds.get_exception())[:80])
            return
    ctx.outcome('two-failures')


OWN_MODES = ['ValueError', 'NameError', 'sys.exit', 'Syntax', 'Bare:KeyError', 'Finally', 'BadStr', 'Recursion', 'open w',
             'import pedal', 'CloseStdout', 'Depth:101']


def body_own_report(ctx):
    """The failing execution is asked for on a Report of the caller's own (report= on every command): the one runtime
    feedback and the sandbox exception belong to that report; the global report and its sandbox see nothing."""
    from pedal.core.report import Report
    from pedal.core.submission import Submission
    mode = OWN_MODES[ctx.choose(len(OWN_MODES), 'mode')]
    entry = ('run', 'call', 'evaluate')[ctx.choose(3, 'entry')]
    threaded = bool(ctx.choose(2, 'threaded'))
    if mode in sc.COMPILE_FAIL and entry != 'run':
        return
    case = {'mode': mode, 'entry': entry, 'threaded': threaded, 'report': 'own'}
    ctx.observe(repr(case))
    ctx.set_sample(case)
    ctx.mark_nontrivial(repr(case))
    main, files = sc.build_files(sc.MODES[mode], entry)
    sc.cmds.clear_report()
    sc.cmds.contextualize_report("print('global submission')\n")
    gsb = sc.sb_cmds.get_sandbox()
    mine = Report()
    sc.cmds.contextualize_report(Submission(files=files, main_file='answer.py', main_code=main), report=mine)
    sb = sc.sb_cmds.get_sandbox(report=mine)
    sb.threaded = threaded
    sb.allowed_time = 20
    snap = sc.GlobalState()
    g0 = (len(sc.MAIN_REPORT.feedback), len(sc.MAIN_REPORT.ignored_feedback))
    try:
        if entry in ('call', 'evaluate'):
            sc.sb_cmds.run(report=mine)
        n0 = len(mine.feedback)
        ctx.step((entry, mode, 'report=own'))
        if entry == 'run':
            sc.sb_cmds.run(report=mine)
        elif entry == 'call':
            sc.sb_cmds.call('target', report=mine)
        else:
            sc.sb_cmds.evaluate('target()', report=mine)
    except BaseException as e:   # noqa
        ctx.fail({'symptom': 'exception escaped into the grader', 'exception': sc.cls_name(e), 'mode': mode,
                  'entry': 'own report', 'threaded': threaded}, case=case, message=str(e)[:200])
        snap.force()
        return
    if snap.diff():
        snap.force()
    new = [f for f in mine.feedback[n0:] if f.category == 'runtime']
    if len(new) != 1 or sc.sb_cmds.get_exception(report=mine) is None:
        ctx.fail({'symptom': 'not exactly one runtime feedback on the own report', 'count': len(new), 'mode': mode,
                  'threaded': threaded}, case=case)
    if (len(sc.MAIN_REPORT.feedback), len(sc.MAIN_REPORT.ignored_feedback)) != g0 or gsb.exception is not None:
        ctx.fail({'symptom': 'a failure on an own report was recorded on the global report', 'mode': mode}, case=case,
                 labels=[f.label for f in sc.MAIN_REPORT.feedback[g0[0]:]][:4])
    ctx.outcome('own-report')


SEC_MODES = ['ValueError', 'NameError', 'sys.exit', 'Syntax', 'Indent', 'UntermStr', 'Bare:KeyError', 'InFunc', 'Finally',
             'AfterPrint', 'Recursion', 'BadStr', 'Depth:101', 'FalsyLen']
SEC_PROLOGUES = ["a = 1\n", "", "a = 1\nb = 2\nc = 3\n"]


def body_sections(ctx):
    """The failing code is one section of a file graded section by section (independent sections): the failure is
    contained and located on the student's own line of the *file*, for code that fails while running and for code
    that does not compile alike; a later, healthy section then runs cleanly."""
    from pedal.source.sections import separate_into_sections, next_section
    mode = SEC_MODES[ctx.choose(len(SEC_MODES), 'mode')]
    pro = SEC_PROLOGUES[ctx.choose(len(SEC_PROLOGUES), 'prologue')]
    which = ctx.choose(2, 'section') + 1          # the failing code is section 1 or section 2
    threaded = bool(ctx.choose(2, 'threaded'))
    tracer = ('none', 'native')[ctx.choose(2, 'tracer')]
    entry = ('run', 'call')[ctx.choose(2, 'entry')]     # the section fails when run | defines a function that fails when called
    code = sc.MODES[mode] + "\n"
    if entry == 'call':
        if mode in sc.COMPILE_FAIL:
            return
        code = "def target():\n" + "\n".join("    " + l for l in sc.MODES[mode].split("\n")) + "\n    return 1\n"
    parts = [pro, "ok1 = 1\nok1b = 2\n", "ok2 = 1\n", "ok3 = 1\n"]
    parts[which] = code
    full = parts[0] + "".join("##### Part %d\n%s" % (i, parts[i]) for i in (1, 2, 3))
    first_line = full[:full.index(code)].count("\n") if which == 1 else \
        (parts[0] + "##### Part 1\n" + parts[1] + "##### Part 2\n").count("\n")
    case = {'mode': mode, 'section': which, 'prologue_lines': pro.count("\n"), 'threaded': threaded, 'tracer': tracer,
            'file': full, 'entry': entry}
    ctx.observe(repr((mode, which, pro, threaded, tracer, entry)))
    ctx.mark_nontrivial(repr((mode, which, pro, threaded, tracer, entry)))
    ctx.set_sample(case)
    rcls, rline = sc.reference_outcome(code if entry == 'run' else code + "target()\n", 'answer.py')
    if entry == 'call' and rline is not None and rline > code.count("\n"):
        rline = None          # (the reference's own call line is not a line of the section)
    sc.cmds.clear_report()
    sc.cmds.contextualize_report(sc.Submission(files={'answer.py': full}, main_file='answer.py', main_code=full))
    sb = sc.sb_cmds.get_sandbox()
    sb.threaded = threaded
    sb.tracer_style = tracer
    sb.allowed_time = 20
    snap = sc.GlobalState()
    try:
        separate_into_sections(independent=True)
        sc.sb_cmds.run()
        for _ in range(which):
            next_section()
            n0 = len(sc.MAIN_REPORT.feedback)
            ctx.step(('run section', mode))
            sc.sb_cmds.run()
        if entry == 'call':
            if sc.sb_cmds.get_exception() is not None:
                ctx.fail({'symptom': 'defining the student function failed', 'mode': mode}, case=case)
                return
            n0 = len(sc.MAIN_REPORT.feedback)
            ctx.step(("call('target') in the section", mode))
            sc.sb_cmds.call('target')
        failed = [f for f in sc.MAIN_REPORT.feedback[n0:] if f.category == 'runtime']
        exc = sc.sb_cmds.get_exception()
        next_section()
        n1 = len(sc.MAIN_REPORT.feedback)
        sc.sb_cmds.run()
        later = [f for f in sc.MAIN_REPORT.feedback[n1:] if f.category == 'runtime']
        later_exc = sc.sb_cmds.get_exception()
    except BaseException as e:   # noqa
        ctx.fail({'symptom': 'exception escaped into the grader', 'exception': sc.cls_name(e), 'mode': mode,
                  'entry': 'section', 'threaded': threaded}, case=case, message=str(e)[:200])
        snap.force()
        return
    if snap.diff():
        snap.force()
    if len(failed) != 1 or exc is None:
        ctx.fail({'symptom': 'not exactly one runtime feedback', 'count': len(failed), 'mode': mode, 'threaded': threaded,
                  'entry': 'section'}, case=case)
        return
    if rline is not None:
        got = failed[0].location.line if failed[0].location is not None else None
        if got != first_line + rline:
            ctx.fail({'symptom': 'feedback not located on the student line', 'mode': mode, 'entry': 'section',
                      'threaded': threaded, 'tracer': tracer}, case=case, want=first_line + rline, got=got)
    if later or later_exc is not None:
        ctx.fail({'symptom': 'a healthy section run after a failing one reports a failure', 'mode': mode}, case=case,
                 exception=repr(later_exc)[:80])
    ctx.outcome('section:' + str(rcls))


def bounds(tier):
    return {'pairs': '%d modes x %d entries, ordered pairs in one sandbox, threaded or not' % (len(PAIR_MODES), len(PAIR_ENTRIES)),
            'modes': len(MODE_NAMES), 'entries': ENTRIES, 'threaded': [False, True], 'tracers': TRACERS}


def phases(tier):
    own = Phase('own-report', body_own_report, setup=_setup, chunk=50, horizon_s=60,
                describe='termination modes through run/call/evaluate with report=<caller-owned Report>')
    sec = Phase('sections', body_sections, setup=_setup, chunk=50, horizon_s=60,
                describe='the failing code as section 1 or 2 of a file graded by independent sections: file-relative line')
    return [own, sec, Phase('terminations', body, setup=_setup, chunk=100, horizon_s=60,
                  describe='mode x entry x threaded x tracer, full product'),
            Phase('two-failures', body_pairs, setup=_setup, chunk=100, horizon_s=60,
                  describe='ordered pairs of failing executions in one sandbox')]
