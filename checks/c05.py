"""C05 -- whatever the sandbox patches is restored after every execution, however it ends.

Driver A x D: histories of executions (entry x termination x tracer x threaded) on one
sandbox, plus exhaustive single-fault injection at every function entry inside
Sandbox._capture_exception ("pedal itself failed while recording the failure").
Invariant after every operation, whether it returned or raised.
"""
import os
import sys
import time
from mc.explore import Phase, REPO_PREFIX
from checks import sandbox_common as sc

PROPERTY = 'C05'
RULE = ('a case is a history of executions on one sandbox (each: entry point x termination mode x tracer style x '
        'threaded, optionally with one injected internal fault) followed by a probe execution; non-trivial = the '
        'history contains an abnormal termination (any exception, exit, or injected fault); distinct by the '
        'canonical history')
ASSUMPTIONS = ['time-outs: explored with the C14 scheduler harness at pre-emption bound 0; deeper interleavings belong to C14',
               'global-state vector = identity of sys.stdout, time.sleep, sys.gettrace(), and keys+identities of sys.modules',
               'fault points = every entry of a function defined under /repo while _capture_exception is active, one fault per history',
               ]
EXPLANATION = ('explicit enumeration of execution histories and exhaustive single-fault injection on the real Sandbox; '
               'state invariant evaluated after every operation')

TERMS = {
    'normal': sc.BASE_MODES['normal'],
    'ValueError': sc.MODES['ValueError'],
    'NameError': sc.MODES['NameError'],
    'sys.exit': sc.MODES['sys.exit'],
    'exit()': sc.MODES['exit()'],
    'KeyboardInterrupt': sc.BASE_MODES['KeyboardInterrupt'],
    'GeneratorExit': sc.BASE_MODES['GeneratorExit'],
    'UserBase': sc.BASE_MODES['UserBase'],
    'Syntax': sc.MODES['Syntax'],
    'CloseStdout': "import sys\nprint('x')\nsys.stdout.close()",
    # the student program itself rebinds what pedal borrowed
    'SetTrace': "import sys\ndef my_trace(frame, event, arg):\n    return None\nsys.settrace(my_trace)\nx = 1",
    'SetStdout': "import sys\nsys.stdout = None\nx = 1",
    'SetSleep': "import time\ntime.sleep = len\nx = 1",
    'DropModule': "import sys\nsys.modules.pop('json', None)\nsys.modules['made_up_by_student'] = sys\nx = 1",
    # the student's exception runs student code again while pedal reports it -- and that code interrupts
    'StrRaisesKI': "class K(Exception):\n    def __str__(self):\n        raise KeyboardInterrupt()\nraise K()",
    'StrRaisesExit': "class Q(Exception):\n    def __str__(self):\n        raise SystemExit(3)\nraise Q()",
}
ENTRIES = ['run-code', 'call', 'evaluate', 'import']
TRACERS = ['none', 'native', 'calls']
PROBE = "print('probe-text')\nprobe_value = 41 + 1\n"

FUNCS = "".join("def t_%d():\n%s\n    return 1\n" % (i, "\n".join("    " + l for l in code.split("\n")))
                for i, (name, code) in enumerate(TERMS.items()) if name != 'Syntax')
TERM_INDEX = {name: i for i, name in enumerate(TERMS)}


def _setup():
    sc.lazy()
    global INJ
    INJ = sc.FaultInjector({'_capture_exception'}, REPO_PREFIX, entry_sites={'append_output'})
    INJ.install()


def _files():
    files = {'answer.py': FUNCS}
    for name, code in TERMS.items():
        files['helper_%d.py' % TERM_INDEX[name]] = code + "\n"
    return files


def _tool_a(frame, event, arg):
    return None


def _tool_b(frame, event, arg):
    return None


AMBIENT = {None: None, 'A': _tool_a, 'B': _tool_b}


CONFIGS = {'block-time': lambda sb: sb.block_module('time'), 'block-os': lambda sb: sb.block_module('os'),
           'mock-len': lambda sb: sb.mock_function('len', lambda x: 42), 'clear-mocks': lambda sb: sb.clear_mocks(),
           # an instructor mocking a module pedal itself patches: starting the next execution fails half-way
           'mock-sys': lambda sb: sb.mock_module('sys', {'flag': 1}, 'sys')}


class _Console:
    """the real console of a run with real IO: healthy, or one whose flush() fails (its reader has gone away)"""
    def __init__(self, broken):
        self.broken = broken
        self.text = []

    def write(self, s):
        self.text.append(s)
        return len(s)

    def writelines(self, lines):
        self.text.extend(lines)

    def flush(self):
        if self.broken:
            raise BrokenPipeError(32, 'Broken pipe')


def _do(op):
    if op[0] == 'config':
        CONFIGS[op[1]](sc.sb_cmds.get_sandbox())
        return
    if op[0] == 'real-io':
        from pedal.sandbox.mocked import PrintingStringIO
        saved = PrintingStringIO._ORIGINAL_STDOUT
        PrintingStringIO._ORIGINAL_STDOUT = _Console(op[2] == 'broken console')
        sb = sc.sb_cmds.get_sandbox()
        sb.tracer_style = 'none'
        sb.threaded = False
        try:
            return sb.run(TERMS[op[1]], filename='answer.py', real_io=True)
        finally:
            PrintingStringIO._ORIGINAL_STDOUT = saved
    entry, term, tracer, threaded = op[:4]
    sb = sc.sb_cmds.get_sandbox()
    if sb.tracer_style != tracer:      # a style that stays the same keeps its tracer object, as in real use
        sb.tracer_style = tracer
    sb.threaded = threaded
    sb.allowed_time = 20
    i = TERM_INDEX[term]
    if entry == 'run-code':
        return sc.sb_cmds.run(TERMS[term], filename='answer.py')
    if entry == 'import':
        sb.data.pop('helper_%d' % i, None)
        return sc.sb_cmds.run("import helper_%d\n" % i, filename='answer.py')
    if entry == 'call':
        return sc.sb_cmds.call('t_%d' % i)
    return sc.sb_cmds.evaluate('t_%d()' % i)


def _ops(tier):
    ops = []
    for e in ENTRIES:
        for t in TERMS:
            if t == 'Syntax' and e in ('call', 'evaluate'):
                continue
            for tr in TRACERS:
                ops.append((e, t, tr, False))
                if tr != 'none' and t in ('normal', 'ValueError', 'sys.exit') and e in ('run-code', 'call', 'import'):
                    # the trace function installed by the surrounding tool may differ from call to call
                    ops.append((e, t, tr, False, 'A'))
                    ops.append((e, t, tr, False, 'B'))
    # executions with real IO (what the student prints is echoed to the console at once), on a healthy console and on
    # one whose flush() fails
    for t in ('normal', 'ValueError', 'sys.exit', 'KeyboardInterrupt', 'CloseStdout'):
        for console in ('healthy console', 'broken console'):
            ops.append(('real-io', t, console, False))
    # instructor configuration of the sandbox between executions
    for c in CONFIGS:
        ops.append(('config', c, 'none', False))
    # threaded variants (real thread, generous limit: the student code ends at once)
    for e in ('run-code', 'call'):
        for t in ('normal', 'ValueError', 'sys.exit', 'KeyboardInterrupt', 'StrRaisesKI', 'StrRaisesExit'):
            ops.append((e, t, 'none', True))
    return ops


def _check_after(ctx, hist, snap, raised):
    sb = sc.sb_cmds.get_sandbox()
    d = snap.diff()
    if 'trace function' in d and hist[-1][1] == 'SetTrace' and hist[-1][2] == 'none':
        # the property covers the trace function "when tracing is enabled": with tracing off pedal never touches it
        # and what the student installed is out of scope (put back here so that the rest of the history is judged)
        d.remove('trace function')
        sys.settrace(snap.trace)
    leftovers = []
    if sb._current_patches:
        leftovers.append('_current_patches')
    if sb._current_stdout:
        leftovers.append('_current_stdout')
    if d or leftovers:
        op = hist[-1]
        ctx.fail({'symptom': 'process-wide state not restored', 'left': ','.join(d + leftovers),
                  'termination': op[1], 'threaded': op[3], 'fault': bool(raised and 'InjectedFault' in raised)},
                 history=hist, raised=raised, detail=getattr(snap, 'detail', None))
        # repair so that the rest of the history (and later executions) are judged on their own
        for patches in reversed(sb._current_patches):
            for p in reversed(patches):
                try:
                    p.stop()
                except Exception:
                    pass
        sb._current_patches.clear()
        sb._current_stdout.clear()
        snap.force()
        return False
    return True


def _probe(ctx, hist):
    sb = sc.sb_cmds.get_sandbox()
    sb.tracer_style = 'none'
    sb.threaded = False
    before = sc.sb_cmds.get_raw_output()
    snap = sc.GlobalState()
    try:
        sc.sb_cmds.run(PROBE, filename='answer.py')
    except BaseException as e:   # noqa
        if any(op[:2] == ('config', 'mock-sys') for op in hist):
            # the instructor replaced `sys` and never undid it: every execution fails to start, by request;
            # what is judged is that each such failure leaves nothing behind
            _check_after(ctx, hist + [('probe', 'fails to start', 'none', False)], snap, type(e).__name__)
            return
        ctx.fail({'symptom': 'probe execution raised', 'exception': type(e).__name__}, history=hist)
        snap.force()
        return
    after = sc.sb_cmds.get_raw_output()
    if after != before + 'probe-text\n' or sb.data.get('probe_value') != 42 or sb.exception is not None:
        ctx.fail({'symptom': 'later execution does not capture output normally'}, history=hist,
                 got=after[len(before):], exception=repr(sb.exception))
    _check_after(ctx, hist + [('probe', 'normal', 'none', False)], snap, None)


def make_histories(ops, max_len):
    def body(ctx):
        n = ctx.choose(max_len, 'n') + 1
        hist = [ops[ctx.choose(len(ops), 'op%d' % i)] for i in range(n)]
        sc.contextualize(FUNCS, _files())
        sc.sb_cmds.run()
        clean = True
        for i, op in enumerate(hist):
            sys.settrace(AMBIENT[op[4] if len(op) > 4 else None])
            snap = sc.GlobalState()
            raised = None
            ctx.step(op)
            try:
                _do(op)
            except BaseException as e:   # noqa  (run() may legitimately re-raise non-Exception classes)
                raised = type(e).__name__
            clean = _check_after(ctx, hist[:i + 1], snap, raised) and clean
        sys.settrace(None)
        _probe(ctx, hist)
        canon = repr(hist)
        ctx.observe(canon)
        ctx.set_sample(hist)
        if any(op[1] != 'normal' and op[0] != 'config' for op in hist):
            ctx.mark_nontrivial(canon)
        ctx.outcome('clean' if clean else 'leak')
    return body


def make_faults(tier):
    ops = [(e, t, tr, False) for e in ENTRIES for t in ('ValueError', 'sys.exit', 'Syntax', 'normal')
           for tr in TRACERS if not (t == 'Syntax' and e in ('call', 'evaluate'))]
    follow = [None, ('run-code', 'normal', 'none', False), ('call', 'ValueError', 'native', False)]

    def body(ctx):
        op = ops[ctx.choose(len(ops), 'op')]
        nxt = follow[ctx.choose(len(follow), 'follow')]
        sc.contextualize(FUNCS, _files())
        sc.sb_cmds.run()
        snap = sc.GlobalState()
        raised = None
        hist = [op]
        ctx.step(op)
        INJ.arm(ctx)
        try:
            try:
                _do(op)
            finally:
                INJ.disarm()
        except BaseException as e:   # noqa
            raised = type(e).__name__ + ': ' + str(e)[:80]
        injected = raised is not None and raised.startswith('InjectedFault')
        ctx.info['fault_sites_seen'] = max(ctx.info['fault_sites_seen'], INJ.sites)
        _check_after(ctx, hist, snap, raised)
        if nxt is not None:
            snap = sc.GlobalState()
            hist = hist + [nxt]
            r2 = None
            try:
                _do(nxt)
            except BaseException as e:   # noqa
                r2 = type(e).__name__
            _check_after(ctx, hist, snap, r2)
        _probe(ctx, hist)
        canon = repr((hist, [t for t in ctx.tags if str(t).startswith('fault@')].__len__(), ctx.choices[2:]))
        ctx.observe(canon)
        ctx.set_sample({'history': hist, 'fault': raised})
        if injected:
            ctx.mark_nontrivial(canon)
        ctx.outcome('fault:%s' % (raised.split(' at entry of ')[-1] if injected else 'none'))
    return body


def _timeout_phase():
    """Time-out terminations: every timer position of the C14 harness at pre-emption bound 0 (the abandoned thread
    runs only when the grader is done, or never: blocked student).  Only the C05 clauses are judged here."""
    from checks import c14
    inner = c14.make_body(c14._sub('busy', 'printing', 'block', 'slow_error', 'close_then_spin'), 40, True)
    # (C05's last clause: "... so that later executions capture output normally")
    keep = ('patch state not clean', 'exception escapes', 'later execution altered', 'abandoned thread changed the captured output')

    def body(ctx):
        # one deviation per schedule: a pre-emption, or pedal failing while it records the output of the
        # abandoned execution (fault at the entry of append_output)
        INJ.arm(ctx)
        try:
            inner(ctx)
        finally:
            INJ.disarm()
        ctx.fails[:] = [(sig, det) for sig, det in ctx.fails
                        if not (sig.get('symptom', '').startswith('exception escapes') and det.get('exception') == 'InjectedFault')]
        ctx.fails[:] = [(sig, det) for sig, det in ctx.fails if any(k in sig.get('symptom', '') for k in keep)]
        for sig, det in ctx.fails:
            sig['termination'] = 'timeout'
    def setup():
        c14._setup()
        _setup()
    return Phase('timeouts', body, bound=1, setup=setup, chunk=100, horizon_s=60,
                 describe='time-out terminations (C14 scheduler harness): every timer position with at most one '
                          'pre-emption or one fault while recording the abandoned output')


def bounds(tier):
    return {'ops': len(_ops(tier)), 'timeouts': 'busy/printing/blocking/failing student, timer after every k<=64 shared-state steps', 'max_history': 2 if tier == 'quick' else 3,
            'fault_bound': 1, 'fault_anchor': 'every function entry inside Sandbox._capture_exception, and the entry of append_output (recording the output)',
            'fault_ops': 'entry x {ValueError, sys.exit, Syntax} x tracer, followed by none/normal/failing op'}


def phases(tier):
    ops = _ops(tier)
    small = [o for o in ops if o[2] == 'none' or o[1] in ('ValueError', 'KeyboardInterrupt')]
    ph = [Phase('histories', make_histories(ops, 2), setup=_setup, chunk=200,
                describe='all histories of <=2 executions over entry x termination x tracer (+threaded)'),
          Phase('faults', make_faults(tier), bound=1, setup=_setup, chunk=200,
                describe='every single fault point inside _capture_exception for every op, then a follow-up op'),
          _timeout_phase()]
    if tier == 'thorough':
        ph.insert(1, Phase('histories-3', make_histories(small, 3), setup=_setup, chunk=200,
                           describe='all histories of 3 executions over the reduced op set (%d ops)' % len(small)))
    return ph
