"""Reference model of the resolver, written from the statements of C01-C03 and
docsrc/developers/ffs.rst -- NOT from pedal/resolvers/simple.py.  It reads only public
attributes of the feedback objects present in the report.
"""
from fractions import Fraction

# documented order (C01 statement)
RANK = ["highest", "syntax", "mistakes", "instructor", "algorithmic", "runtime", "student",
        "specification", "positive", "instructions", "uncategorized", "lowest"]
# documented aliases (pedal.core.feedback_category.FeedbackCategory.ALIASES in the docs)
ALIASES = {'parser': 'syntax', 'verifier': 'syntax', 'analyzer': 'algorithmic',
           'instructor': 'instructor'}
COMPLIMENT = 'Compliment'


class _Req:
    """A feedback as the reference model sees it: what the caller *asked for* where the descriptor says so
    (`_verif_req`, attached by the harness), the object's public attribute otherwise.  The resolver must act on
    the requested valence/score/flags even if the constructor silently recorded something else."""
    __slots__ = ('_f', '_r')

    def __init__(self, f):
        self._f = f
        self._r = getattr(f, '_verif_req', None) or {}

    def __getattr__(self, name):
        if name in ('valence', 'score', 'unscored', 'muted', 'kind', 'category', 'priority', 'correct', 'fields') and name in self._r:
            return self._r[name]
        return getattr(self._f, name)

    def __bool__(self):
        return bool(self._f)


def rank(fb):
    """(base rank, within-rank shift) or None when the statement does not define it."""
    cat = fb.category
    cat = 'uncategorized' if cat is None else str(cat).lower()
    pr = fb.priority
    pr = 'medium' if pr is None else ALIASES.get(str(pr).lower(), str(pr).lower())
    base = RANK.index(cat) if cat in RANK else len(RANK)
    shift = 1
    if pr in RANK:
        base = RANK.index(pr)
    elif pr == 'high':
        shift = 0
    elif pr == 'low':
        shift = 2
    elif pr == 'medium':
        shift = 1
    else:
        return None
    return (base, shift)


def suppressed(fb, sups):
    """sups: list of (category|None, label|True, fields|None) as passed to suppress()."""
    for (cat, label, fields) in sups:
        if cat is not None:
            c = ALIASES.get(cat.lower(), cat.lower())
            # a feedback without a category is ranked as 'uncategorized' (C01 statement) and is suppressed as such
            if (fb.category or 'uncategorized').lower() != c:
                continue
            if label is not True and (fb.label or '').lower() != label.lower():
                continue
        else:
            if fb.label != label:
                continue
        if all((fb.fields or {}).get(k) == v for k, v in (fields or {}).items()):
            return True
    return False


def eligible(fb, sups):
    return bool(fb) and not fb.muted and fb.kind != COMPLIMENT and not suppressed(fb, sups)


def parse_score(score):
    """Fraction value with sign, per the statement ('N%' = N/100, '-' subtracts)."""
    if isinstance(score, bool):
        return Fraction(int(score))
    if isinstance(score, (int, float)):
        return Fraction(str(score))
    s = str(score).strip()
    neg = s.startswith('-')
    s = s.lstrip('+-')
    pct = s.endswith('%')
    v = Fraction(s.rstrip('%'))
    if pct:
        v = v / 100
    return -v if neg else v


def expected_score(fbs, sups):
    total = Fraction(0)
    for f in (x if isinstance(x, _Req) else _Req(x) for x in fbs):
        if suppressed(f, sups) or f.unscored or f.score is None:
            continue
        v = parse_score(f.score)
        trig = bool(f)
        if (f.valence != -1 and trig) or (f.valence == -1 and not trig):
            total += v
    return total


def near_rounding_boundary(total):
    x = total * 100
    frac = x - (x.numerator // x.denominator)
    return abs(frac - Fraction(1, 2)) < Fraction(1, 10 ** 7)


def reference(fbs, sups):
    """fbs in creation order.  Returns dict(label,title,message,category,correct,score,
    default) or None when the ranking is not defined by the statement."""
    fbs = [_Req(f) for f in fbs]
    elig = [(i, f) for i, f in enumerate(fbs) if eligible(f, sups)]
    correct = all(bool(f.correct) for _, f in elig)
    if not elig:
        return dict(default=True, correct=True, score=1)
    ranks = [(rank(f), i, f) for i, f in elig]
    if any(r is None for r, _, _ in ranks):
        return None
    r, i, f = min(ranks, key=lambda t: (t[0], t[1]))
    total = expected_score(fbs, sups)
    return dict(default=False, label=f.label, title=f.title or f.label, message=f.message,
                category=f.category, correct=correct, score=total, winner=i,
                n_eligible=len(elig), distinct_ranks=len({r for r, _, _ in ranks}))


def describe(fb):
    return dict(cls=type(fb).__name__, label=fb.label, category=fb.category, priority=fb.priority,
                kind=fb.kind, muted=fb.muted, triggered=bool(fb), correct=fb.correct, score=fb.score,
                valence=fb.valence, unscored=fb.unscored, fields={k: v for k, v in (fb.fields or {}).items()
                                                                  if k != 'location'},
                else_message=fb.else_message, title=fb.title)
