"""C15 -- captured output and mocked input exactly record what student code did, in order.

Driver A: all histories of run/call/evaluate/clear_output/set_input/queue_input/
clear_input up to a depth, against a reference model (string accumulator + list of
per-execution texts + FIFO).  The prompt echo and the empty-queue default are calibrated
from one-op histories and then required to be the same everywhere.
"""
import contextlib
import io
from mc.explore import Phase

PROPERTY = 'C15'
RULE = ('a case is an operation history on one sandbox; non-trivial = at least two executions of which one prints and '
        'one is silent or reads input, or an input-queue operation between two reading executions; distinct by '
        'canonical I/O state reached (raw output, line list, queue)')
ASSUMPTIONS = ['each program text is obtained by running it under plain CPython with the model input()',
               'echo(prompt) and the empty-queue default are calibrated once per worker from one-op histories',
               'per-execution records are read from sandbox._context (kind != getitem)']
EXPLANATION = 'explicit enumeration of operation histories on a real Sandbox; reference-model comparison after every op'

DEFS = ("def sil():\n    return 1\ndef pr():\n    print('in pr')\ndef rd():\n    v = input('p>')\n"
        "    print('got', v)\n    return v\n"
        # the student keeps a reference of their own to input(), made when the file was first run
        "read = input\ndef rdk():\n    v = read('p>')\n    w = read('two?')\n    print('kept', v, w)\n    return v\n")
PROGS = {
    'silent': "z = 1",
    'a': "print('a')",
    'noeol': "print('b', end='')",
    'blank': "print('c  ')\nprint()\nprint('d')\nprint()",
    'write': "import sys\nsys.stdout.write('w1\\nw2')",
    'read1': "v = input()\nprint(v)",
    'read2': "v = input('one?')\nw = input('two?')\nprint(v, w)",
    'read3': "print(input(), input(), input())",
    'raise': "print('before')\nraise ValueError('x')\nprint('after')",
    'sep': "print('x', 'y', sep='-', end='!\\n')\nprint('  lead')",
    'onlyspace': "print('   ')",
    'ctrl': "print('x\\ry', end='\\r')\nprint('p\\x0cq\\x0bz')",
    # the prompt cannot be shown (its text fails to compute): nothing may be taken off the queue for that call
    'badprompt': ("class P:\n    def __str__(self):\n        raise ValueError('no prompt')\ntry:\n    v = input(P())\n"
                  "except ValueError:\n    v = input('two?')\nprint(v)"),
}
OPS = [('run', k) for k in PROGS] + [
    ('call', 'sil'), ('call', 'pr'), ('call', 'rd'), ('call', 'rdk'), ('eval', '1+1'), ('clear_output',),
    ('set_input', ['i1', 'i2']), ('set_input', 'solo'), ('queue_input', 'q1', 'q2'), ('clear_input',),
    ('set_input_noclear', ['k1']), ('set_input', []), ('set_input_noclear', []), ('queue_input',),
    ('run_inputs', 'read2', []), ('run_inputs', 'read1', ['r1', 'r2']), ('call_inputs', 'rd', ''),
    ('set_input', 7), ('set_input_tuple', ('t1', 't2')),
    # numbers inside a list: handed out as text, like every input
    ('set_input', [6, 2.5, True]), ('queue_input', 7, 0.5), ('run_inputs', 'read2', [8, 9]), ('set_input_tuple', (1, 'two')), ('set_input_callable',), ('run_before_after', 'read1'),
    ('call_target', 'pr'),
    # an instructor's own mock of input(): the queue keeps serving the student (each execution installs its tracker)
    ('mock_input',),
    # the allowance of input() calls is one per execution (no program here reads more than three times)
    ('limit5',),
]
PROMPTS = ['', 'p>', 'one?', 'two?']
CAL = {}


def _setup():
    global cmds, sb_cmds, MAIN_REPORT
    import importlib
    cmds = importlib.import_module('pedal.core.commands')
    sb_cmds = importlib.import_module('pedal.sandbox.commands')
    from pedal.core.report import MAIN_REPORT
    # calibration: what does input(prompt) echo, and what does an empty queue answer?
    for p in PROMPTS:
        _fresh()
        sb_cmds.set_input(['zz'])
        sb_cmds.run("v = input(%r)" % p if p else "v = input()")
        CAL[p] = sb_cmds.get_raw_output()
    _fresh()
    sb_cmds.run("v = input()\n")
    CAL['__default__'] = sb_cmds.get_sandbox().data.get('v')
    _fresh()


KW = {}       # {} : the global report; {'report': <own Report>} in the own-report phase


def _fresh():
    cmds.clear_report()
    if KW:
        # the global report holds another submission with its own queue and output: none of it may be touched
        cmds.contextualize_report("print('global')\n")
        sb_cmds.run()
        sb_cmds.set_input(['GLOBAL-1', 'GLOBAL-2'])
        from pedal.core.report import Report
        KW['report'] = Report()
    cmds.contextualize_report(DEFS, **KW)
    sb_cmds.run(**KW)
    sb_cmds.clear_output(**KW)
    sb_cmds.clear_input(**KW)


def CALLABLE(prompt):
    return 'c<' + prompt + '>'


class Model:
    def __init__(self):
        self.raw = ""
        self.lines = []
        self.inputs = []
        self.ctx = []
        self._inp = None
        # input() of the student's namespace always reaches the queue as it is at the moment of the call -- also
        # through a reference the student made during an earlier execution
        self.ns = {'input': lambda prompt="": self._inp(prompt)}
        exec(DEFS, self.ns)

    def execute(self, code):
        out = io.StringIO()
        used = []

        def inp(prompt=""):
            if callable(self.inputs):
                v = self.inputs(prompt)          # a callable source answers by itself (and echoes nothing)
            else:
                shown = prompt if isinstance(prompt, str) else str(prompt)     # may raise: then nothing is consumed
                out.write(CAL[shown])
                v = self.inputs.pop(0) if self.inputs else CAL['__default__']
            used.append(v)
            return v
        env = self.ns
        self._inp = inp
        try:
            with contextlib.redirect_stdout(out):
                exec(compile(code, 'answer.py', 'exec'), env)
        except Exception:
            pass
        text = out.getvalue()
        self.raw += text
        if text:
            self.lines.extend(l.rstrip() for l in text.rstrip().split("\n"))
        self.ctx.append((text, used))

    def apply(self, op):
        k = op[0]
        if k == 'run':
            self.execute(PROGS[op[1]])
        elif k == 'call':
            self.execute("_ = %s()" % op[1])
        elif k == 'eval':
            self.execute("_ = %s" % op[1])
        elif k == 'run_inputs':
            self.inputs = [str(v) for v in op[2]]
            self.execute(PROGS[op[1]])
        elif k == 'call_inputs':
            self.inputs = [op[2]]
            self.execute("_ = %s()" % op[1])
        elif k == 'clear_output':
            self.raw = ""
            self.lines = []
        elif k == 'set_input' and isinstance(op[1], int):
            self.inputs = [str(op[1])]
        elif k == 'set_input_tuple':
            self.inputs = [str(v) for v in op[1]]
        elif k == 'set_input_callable':
            self.inputs = CALLABLE
        elif k == 'run_before_after':
            self.execute("print('B')")
            self.execute(PROGS[op[1]])
            self.execute("print('A')")
        elif k == 'call_target':
            self.execute("kept = %s()" % op[1])
        elif k == 'set_input':
            self.inputs = [op[1]] if isinstance(op[1], str) else [str(v) for v in op[1]]
        elif k == 'set_input_noclear':
            if callable(self.inputs):
                self.inputs = []
            self.inputs.extend(op[1])
        elif k == 'queue_input':
            if callable(self.inputs):
                self.inputs = []
            self.inputs.extend(str(v) for v in op[1:])
        elif k == 'clear_input':
            self.inputs = []


def apply_real(op):
    k = op[0]
    if k == 'run':
        sb_cmds.run(PROGS[op[1]], **KW)
    elif k == 'call':
        sb_cmds.call(op[1], **KW)
    elif k == 'eval':
        sb_cmds.evaluate(op[1], **KW)
    elif k == 'run_inputs':
        sb_cmds.run(PROGS[op[1]], inputs=list(op[2]), **KW)
    elif k == 'call_inputs':
        sb_cmds.call(op[1], inputs=op[2], **KW)
    elif k == 'clear_output':
        sb_cmds.clear_output(**KW)
    elif k == 'set_input' and isinstance(op[1], int):
        sb_cmds.set_input(op[1], **KW)
    elif k == 'set_input_tuple':
        sb_cmds.set_input(tuple(op[1]), **KW)
    elif k == 'set_input_callable':
        sb_cmds.set_input(CALLABLE, **KW)
    elif k == 'run_before_after':
        sb_cmds.get_sandbox(**KW).run(PROGS[op[1]], before="print('B')", after="print('A')")
    elif k == 'call_target':
        sb_cmds.call(op[1], target='kept', **KW)
    elif k == 'set_input':
        sb_cmds.set_input(op[1] if isinstance(op[1], str) else list(op[1]), **KW)
    elif k == 'set_input_noclear':
        sb_cmds.set_input(list(op[1]), clear=False, **KW)
    elif k == 'queue_input':
        sb_cmds.queue_input(*op[1:], **KW)
    elif k == 'clear_input':
        sb_cmds.clear_input(**KW)
    elif k == 'limit5':
        sb_cmds.get_sandbox(**KW).MAXIMUM_INPUTS = 5
    elif k == 'mock_input':
        sb_cmds.get_sandbox(**KW).mock_function('input', lambda prompt='': 'MOCKED')


EXEC = ('run', 'call', 'eval', 'run_inputs', 'call_inputs', 'run_before_after', 'call_target')


def make_body(max_ops, own_report=False):
    def body(ctx):
        n = ctx.choose(max_ops, 'n') + 1
        hist = [OPS[ctx.choose(len(OPS), 'op%d' % i)] for i in range(n)]
        if own_report:
            KW['report'] = None
        else:
            KW.clear()
        _fresh()
        sb = sb_cmds.get_sandbox(**KW)
        m = Model()
        nctx0 = len(sb._context)
        execs = [op for op in hist if op[0] in EXEC]
        for i, op in enumerate(hist):
            ctx.step(op)
            try:
                apply_real(op)
            except Exception as e:
                ctx.fail({'symptom': 'operation raised', 'op': op[0], 'exception': type(e).__name__},
                         history=hist[:i + 1], message=str(e)[:200])
                return
            m.apply(op)
            real_raw = sb_cmds.get_raw_output(**KW)
            real_lines = list(sb_cmds.get_output(**KW))
            real_inputs = sb_cmds.get_input(**KW)
            real_inputs = real_inputs if callable(real_inputs) else list(real_inputs)
            sig = None
            if real_raw != m.raw:
                sig = {'symptom': 'raw output differs'}
                det = dict(got=real_raw, want=m.raw)
            elif real_lines != m.lines:
                extra_blank = [l for l in real_lines if l == ''] != [l for l in m.lines if l == ''] and \
                    [l for l in real_lines if l != ''] == [l for l in m.lines if l != '']
                prev_exec = [o for o in hist[:i] if o[0] in EXEC]
                sig = {'symptom': 'line list differs',
                       'kind': 'phantom or missing empty line only' if extra_blank else 'content/order',
                       'current_execution_silent': bool(op[0] in EXEC and m.ctx and m.ctx[-1][0] == '')}
                det = dict(got=real_lines, want=m.lines)
            elif real_inputs != m.inputs:
                sig = {'symptom': 'input queue differs', 'after': op[0]}
                det = dict(got=real_inputs, want=m.inputs)
            else:
                real_ctx = [(c.output, list(c.inputs)) for c in sb._context[nctx0:] if c.kind != 'getitem']
                if real_ctx != m.ctx:
                    sig = {'symptom': 'per-execution record differs'}
                    det = dict(got=real_ctx, want=m.ctx)
            if sig:
                ctx.fail(sig, history=hist[:i + 1], **det)
                break
        if own_report:
            g_in = sb_cmds.get_input()
            if list(g_in) != ['GLOBAL-1', 'GLOBAL-2'] or sb_cmds.get_raw_output() != 'global\n':
                ctx.fail({'symptom': 'operations with report=own changed the global sandbox'}, history=hist,
                         global_inputs=list(g_in), global_output=sb_cmds.get_raw_output())
            KW.clear()
        canon = repr((m.raw, m.lines, 'callable' if callable(m.inputs) else m.inputs, len(m.ctx)))
        ctx.observe(canon)
        ctx.set_sample(hist)
        texts = [t for t, _ in m.ctx]
        if len(texts) >= 2 and any(texts) and (not all(texts) or any(u for _, u in m.ctx)):
            ctx.mark_nontrivial(canon)
        ctx.outcome('%d-execs' % len(execs))
    return body


def bounds(tier):
    return {'ops': len(OPS), 'max_ops': 3 if tier == 'quick' else 4, 'programs': len(PROGS)}


def phases(tier):
    return [Phase('io-histories', make_body(3 if tier == 'quick' else 4), setup=_setup, chunk=300,
                  describe='all operation histories up to the depth bound on one sandbox'),
            Phase('own-report', make_body(2 if tier == 'quick' else 3, own_report=True), setup=_setup, chunk=300,
                  describe='histories <=2 with report=<caller-owned Report> on every command; the global sandbox '
                           '(own queue and output) stays untouched')]
