"""C08 -- static ensure_*/prevent_* checks agree with the student's actual syntax tree.

Driver B: all programs of <=N statements over a statement alphabet that contains every
operator, call form, literal type and import form; every query x threshold.  Oracle: a
plain ast.walk over CPython's own tree with a symbol table written from the language
reference.
"""
import ast
from mc.explore import Phase

PROPERTY = 'C08'
RULE = ('a case is one program (sequence of statements) with the whole battery of queries x thresholds evaluated on '
        'it (each query counted in `evaluations`); non-trivial = the program contains at least one occurrence of a '
        'queried operator/call/literal nested inside another expression or a compound statement; distinct by program')
ASSUMPTIONS = ['operator symbol -> ast class table written from the Python language reference, not from pedal/utilities/operators.py',
               'occurrences: each `ops` entry of a Compare, each BoolOp/BinOp/UnaryOp node, calls by Name.id or '
               'Attribute.attr, constants by type(value) is type(literal) and value == literal',
               'unary + and - are not documented by pedal and are reported separately, not asserted',
               'imports are checked for at_least=1 / at_most=0 only (documented: thresholds ignored)']
EXPLANATION = 'bounded-exhaustive programs x queries on the real assertions; oracle = ast.walk on CPython\'s tree'

STM = ["a = 1 <= 2", "b = 3 >= 2 > 1", "c = 1 << 2", "d = 8 >> 1 >> 1", "e = 1 < 2 < 3", "f = not a", "g = -1",
       "h = 1 + 2 + 3", "i = a and b and c", "j = a or (b and c)", "k = True", "l = 1.0", "m = 'x' + 'x'",
       "n = [1, 2][0]", "o = {'k': 1}", "p = ~1", "q = 2 ** 3 // 2 % 2", "r = a is not None", "s = 1 in [1]",
       "t = 1 not in [2]", "u = a == b != c", "print(1)", "print(len([1]), max(1, 2))", "obj.method(1).other()",
       "import math", "import os.path as osp", "from random import randint", "from os import path",
       "def fn(x=1 + 1):\n    return x * 2", "for z in range(3):\n    print(z)", "while a:\n    a = a - 1",
       "if a:\n    pass\nelif b:\n    print('x')\nelse:\n    print(None)", "w = lambda v: v + 1",
       "x = [y * 2 for y in range(2) if y]", "y = a if b else c", "z = f'{a}b'", "v = 1 | 2 ^ 3 & 4", "t2 = a @ b",
       "u2 = +1", "lo = 0 < a < 5 < b", "k2 = False or 0", "s2 = '1'", "e2 = a is b", "mixed = 1 == 1.0 == True",
       "import random, math as m2",
       # node lists of CPython's tree that hold None or plain strings next to nodes
       "def kw(*, a, b=2):\n    return a", "cfg = {**o, 'k': 3, 'x': 1}", "def gl():\n    global a, b\n    a = 2 + 1",
       "def va(*args, c=1.0, **kw):\n    return len(args)", "sl = n[1:][::2]",
       # the file starts with blank lines / a comment block: every line number counts from the top of the file
       "\n\nlead = 1 + 1", "# header\n\n\nfor z in range(3):\n    print(z < 2)"]
PYOPS = {'==': ast.Eq, '!=': ast.NotEq, '<': ast.Lt, '<=': ast.LtE, '>': ast.Gt, '>=': ast.GtE, 'is': ast.Is,
         'is not': ast.IsNot, 'in': ast.In, 'not in': ast.NotIn, 'and': ast.And, 'or': ast.Or,
         '+': ast.Add, '-': ast.Sub, '*': ast.Mult, '/': ast.Div, '//': ast.FloorDiv, '%': ast.Mod, '**': ast.Pow,
         '<<': ast.LShift, '>>': ast.RShift, '|': ast.BitOr, '^': ast.BitXor, '&': ast.BitAnd, '@': ast.MatMult,
         'not': ast.Not, '~': ast.Invert}
CALLS = ['print', 'len', 'max', 'method', 'other', 'range', 'fn', 'nothere']
LITERALS = [1, 2, 1.0, True, False, 'x', 'k', 0, 3, '1', 2.0]
LITTYPES = [int, float, str, bool, list, dict]
ASTNAMES = ['For', 'While', 'If', 'BinOp', 'Call', 'Lambda', 'ListComp', 'IfExp', 'JoinedStr', 'Name', 'Import',
            'ImportFrom', 'FunctionDef', 'Compare', 'Try', 'BoolOp', 'UnaryOp', 'Subscript', 'Return', 'With', 'ClassDef']
MODULES = ['math', 'os', 'os.path', 'random', 'sys', 'path', 'randint', 'm2']


def _setup():
    global cmds, MAIN_REPORT, find_operation, find_function_calls, find_asts, S
    import importlib
    cmds = importlib.import_module('pedal.core.commands')
    from pedal.core.report import MAIN_REPORT
    from pedal.cait.find_node import find_operation, find_function_calls
    from pedal.cait.cait_api import find_asts
    import pedal.assertions.static as S


def op_nodes(tree, sym):
    """(node, line) per occurrence."""
    cls = PYOPS[sym]
    out = []
    for nd in ast.walk(tree):
        if isinstance(nd, ast.Compare):
            out.extend(nd for o in nd.ops if isinstance(o, cls))
        elif isinstance(nd, (ast.BoolOp, ast.BinOp, ast.UnaryOp)) and isinstance(nd.op, cls):
            out.append(nd)
    return out


def _fired(fb):
    return bool(fb)


def _thresholds(exp):
    return sorted({0, max(exp - 1, 0), exp, exp + 1, 1, 2})


def check_pair(ctx, code, what, key, exp_nodes, ensure, prevent, arg, count_field=None):
    """ensure_X(arg, at_least=n) fires iff count < n; prevent_X(arg, at_most=m) fires iff count > m."""
    exp = len(exp_nodes)
    lines = {getattr(n, 'lineno', None) for n in exp_nodes}
    for n in _thresholds(exp):
        ctx.evaluated(2)
        if n >= 0:      # at_least=0 included: it can never fire
            try:
                fb = ensure(arg, at_least=n)
                if _fired(fb) != (exp < n):
                    ctx.fail({'symptom': 'ensure fires wrongly', 'what': what, 'query': key}, program=code,
                             count=exp, at_least=n, fired=_fired(fb), counted=fb.fields.get(count_field or 'use_count'))
            except Exception as e:
                ctx.fail({'symptom': 'ensure raised', 'what': what, 'query': key, 'exception': type(e).__name__},
                         program=code, message=str(e)[:150])
        try:
            fb = prevent(arg, at_most=n - 1 if n >= 1 else 0)
            m = n - 1 if n >= 1 else 0
            if _fired(fb) != (exp > m):
                ctx.fail({'symptom': 'prevent fires wrongly', 'what': what, 'query': key}, program=code,
                         count=exp, at_most=m, fired=_fired(fb), counted=fb.fields.get(count_field or 'use_count'))
            elif _fired(fb) and fb.location is not None and fb.location.line is not None \
                    and None not in lines and fb.location.line not in lines:
                ctx.fail({'symptom': 'reported line is not the line of an occurrence', 'what': what, 'query': key},
                         program=code, line=fb.location.line, occurrence_lines=sorted(lines))
        except Exception as e:
            ctx.fail({'symptom': 'prevent raised', 'what': what, 'query': key, 'exception': type(e).__name__},
                     program=code, message=str(e)[:150])


def battery(ctx, code):
    tree = ast.parse(code)
    cmds.clear_report()
    cmds.contextualize_report(code)
    nested = False
    for sym in PYOPS:
        nodes = op_nodes(tree, sym)
        got = find_operation(sym)
        ctx.evaluated()
        if len(got) != len(nodes):
            ctx.fail({'symptom': 'find_operation count', 'query': sym}, program=code, want=len(nodes), got=len(got))
        else:
            want_ids = sorted(id(n) for n in nodes)
            # the returned CaitNodes must wrap exactly those CPython nodes (same tree: compare by position)
            want_pos = sorted((n.lineno, n.col_offset, type(n).__name__) for n in nodes)
            got_pos = sorted((g.astNode.lineno, g.astNode.col_offset, type(g.astNode).__name__) for g in got)
            if want_pos != got_pos:
                ctx.fail({'symptom': 'find_operation returns other nodes', 'query': sym}, program=code,
                         want=want_pos, got=got_pos)
        check_pair(ctx, code, 'operation', sym, nodes, S.ensure_operation, S.prevent_operation, sym)
        if nodes:
            nested = True
    for name in CALLS:
        nodes = [nd for nd in ast.walk(tree) if isinstance(nd, ast.Call) and (
            (isinstance(nd.func, ast.Name) and nd.func.id == name) or
            (isinstance(nd.func, ast.Attribute) and nd.func.attr == name))]
        got = find_function_calls(name)
        ctx.evaluated()
        want_pos = sorted((n.lineno, n.col_offset) for n in nodes)
        got_pos = sorted((g.astNode.lineno, g.astNode.col_offset) for g in got)
        if want_pos != got_pos:
            ctx.fail({'symptom': 'find_function_calls differs', 'query': name}, program=code, want=want_pos, got=got_pos)
        check_pair(ctx, code, 'function_call', name, nodes, S.ensure_function_call, S.prevent_function_call, name)
    for lit in LITERALS:
        nodes = [nd for nd in ast.walk(tree) if isinstance(nd, ast.Constant) and type(nd.value) is type(lit)
                 and nd.value == lit]
        check_pair(ctx, code, 'literal', repr(lit), nodes, S.ensure_literal, S.prevent_literal, lit)
    for lt in LITTYPES:
        if lt is list:
            nodes = [nd for nd in ast.walk(tree) if isinstance(nd, ast.List)]
        elif lt is dict:
            nodes = [nd for nd in ast.walk(tree) if isinstance(nd, ast.Dict)]
        else:
            nodes = [nd for nd in ast.walk(tree) if isinstance(nd, ast.Constant) and type(nd.value) is lt]
        check_pair(ctx, code, 'literal_type', lt.__name__, nodes, S.ensure_literal_type, S.prevent_literal_type, lt)
    for nm in ASTNAMES:
        nodes = [nd for nd in ast.walk(tree) if type(nd).__name__ == nm]
        got = find_asts(nm)
        ctx.evaluated()
        if len(got) != len(nodes):
            ctx.fail({'symptom': 'find_asts count', 'query': nm}, program=code, want=len(nodes), got=len(got))
        check_pair(ctx, code, 'ast', nm, nodes, S.ensure_ast, S.prevent_ast, nm)
    for mod in MODULES:
        exp = any((isinstance(nd, ast.Import) and any(a.name == mod for a in nd.names)) or
                  (isinstance(nd, ast.ImportFrom) and nd.module == mod) for nd in ast.walk(tree))
        ctx.evaluated(2)
        try:
            e_f = _fired(S.ensure_import(mod))
            p_f = _fired(S.prevent_import(mod))
        except Exception as e:
            ctx.fail({'symptom': 'import check raised', 'query': mod, 'exception': type(e).__name__}, program=code)
            continue
        if e_f != (not exp):
            ctx.fail({'symptom': 'ensure fires wrongly', 'what': 'import', 'query': mod}, program=code, imported=exp)
        if p_f != exp:
            ctx.fail({'symptom': 'prevent fires wrongly', 'what': 'import', 'query': mod}, program=code, imported=exp)
    # not asserted: unary +/- (pedal leaves them out of its table)
    for sym, cls in (('+', ast.UAdd), ('-', ast.USub)):
        if any(isinstance(nd, ast.UnaryOp) and isinstance(nd.op, cls) for nd in ast.walk(tree)):
            ctx.info['programs_with_undocumented_unary_' + ('plus' if sym == '+' else 'minus')] += 1
    return nested


def make_body(max_stmts, second_pool):
    def body(ctx):
        n = ctx.choose(max_stmts, 'n') + 1
        idx = [ctx.choose(len(STM) if i == 0 else second_pool, 's%d' % i) for i in range(n)]
        code = "\n".join(STM[i] for i in idx) + "\n"
        ctx.observe(code)
        ctx.set_sample(code)
        ctx.step('battery')
        nested = battery(ctx, code)
        if nested and n > 1 or '\n' in STM[idx[0]]:
            ctx.mark_nontrivial(code)
        ctx.outcome('fail' if ctx.fails else 'ok')
    return body


LITE_OPS = ['+', '<', '==', 'and', '*', 'not']
LITE_CALLS = ['print', 'len', 'range']
LITE_ASTS = ['Call', 'Name', 'For', 'Compare', 'BinOp']


def _lite(code, report=None):
    """(oracle, observed) counts for a small battery on the current submission (of the given report)"""
    kw = {} if report is None else {'report': report}
    tree = ast.parse(code)
    want, got = [], []
    for sym in LITE_OPS:
        want.append(len(op_nodes(tree, sym)))
        if report is None:
            got.append(len(find_operation(sym)))
        else:
            from pedal.cait.cait_api import parse_program
            got.append(len(find_operation(sym, parse_program(report=report))))
            want.append(want[-1] > 0)
            got.append(bool(S.prevent_operation(sym, **kw)))
    for name in LITE_CALLS:
        want.append(sum(1 for nd in ast.walk(tree) if isinstance(nd, ast.Call) and (
            (isinstance(nd.func, ast.Name) and nd.func.id == name) or
            (isinstance(nd.func, ast.Attribute) and nd.func.attr == name))))
        got.append(len(find_function_calls(name, **kw)))
        fired = bool(S.prevent_function_call(name, **kw))
        want.append(want[-1] > 0)
        got.append(fired)
    for nm in LITE_ASTS:
        want.append(sum(1 for nd in ast.walk(tree) if type(nd).__name__ == nm))
        got.append(len(find_asts(nm, **kw)))
        if report is not None:
            want.append(want[-1] < 1)
            got.append(bool(S.ensure_ast(nm, **kw)))
    return want, got


def body_own_report(ctx):
    """The battery on a Report of the caller's own while the global report holds another program: every count comes
    from the own program, every feedback lands on the own report."""
    from pedal.core.report import Report
    pool = 32
    small = [21, 22, 0, 7, 29, 33, 24, 11]        # print, calls, comparisons, arithmetic, loop, comprehension, import, bool
    a = STM[ctx.choose(pool, 'own-submission')] + "\n" + STM[small[ctx.choose(len(small), 'own-submission-2')]] + "\n"
    b = STM[small[ctx.choose(len(small), 'global-submission')]] + "\n"
    order = ctx.choose(2, 'global-battery-first')
    case = {'own': a, 'global': b, 'global_battery_first': bool(order)}
    ctx.observe(repr(case))
    ctx.set_sample(case)
    ctx.mark_nontrivial(repr(case))
    cmds.clear_report()
    cmds.contextualize_report(b)
    mine = Report()
    cmds.contextualize_report(a, report=mine)
    if order:
        _lite(b)
    g0 = (len(MAIN_REPORT.feedback), len(MAIN_REPORT.ignored_feedback))
    ctx.step('battery with report=own')
    try:
        want, got = _lite(a, report=mine)
    except Exception as e:
        ctx.fail({'symptom': 'check with report=own raised', 'exception': type(e).__name__}, case=case, message=str(e)[:200])
        return
    ctx.evaluated(len(want))
    if want != got:
        ctx.fail({'symptom': 'checks on an own report disagree with its tree'}, case=case, want=want, got=got)
    if (len(MAIN_REPORT.feedback), len(MAIN_REPORT.ignored_feedback)) != g0:
        ctx.fail({'symptom': 'checks on an own report attached feedback to the global report'}, case=case)
    wb, gb = _lite(b)
    if wb != gb:
        ctx.fail({'symptom': 'checks on the global report disagree with its tree after checks on an own report'}, case=case,
                 want=wb, got=gb)


def body_histories(ctx):
    """The checks refer to the student's submission, whatever other code was parsed in between."""
    from pedal.cait.cait_api import parse_program, find_matches
    from pedal.source import set_source
    from pedal.source.source import restore_code
    pool = 14
    a = STM[ctx.choose(pool, 'submission')] + "\n" + STM[ctx.choose(pool, 'submission-2')] + "\n"
    b = STM[ctx.choose(pool, 'other-code')] + "\n"
    how = ('find_asts(student_code=)', 'find_matches(student_code=)', 'parse_program(code)', 'set_source+restore_code',
           'nothing', 'verify(other code)', 'find_asts(student_code=<does not parse>)',
           'set_source, then a helper that does set_source(the same text)+restore_code',
           'next_section() once more than the file has parts')[ctx.choose(9, 'interleaved')]
    case = {'submission': a, 'other': b, 'interleaved': how}
    ctx.observe(repr(case))
    ctx.set_sample(case)
    if how != 'nothing':
        ctx.mark_nontrivial(repr(case))
    loaded = ('contextualize_report', 'contextualize_report+verify', 'set_source')[ctx.choose(3, 'how-loaded')]
    case['loaded'] = loaded
    cmds.clear_report()
    if loaded == 'set_source':
        set_source(a)
    else:
        cmds.contextualize_report(a)
        if loaded.endswith('verify'):
            from pedal.source import verify
            verify()
    # with or without the checks having looked at the submission before the interleaved step (whatever CAIT
    # caches for the submission exists only in the first case)
    warm = bool(ctx.choose(2, 'battery-before'))
    case['battery_before'] = warm
    if warm:
        ctx.step('battery on the submission')
        want, got = _lite(a)
        ctx.evaluated(len(want))
        if want != got:
            ctx.fail({'symptom': 'checks disagree with the tree', 'when': 'first'}, case=case, want=want, got=got)
            return
    ctx.step(how)
    try:
        tb = ast.parse(b)
        want_b = sorted((n.lineno, n.col_offset) for n in ast.walk(tb) if isinstance(n, ast.Name))
        got_b = None
        if how.startswith('find_asts(student_code=)'):
            got_b = sorted((g.astNode.lineno, g.astNode.col_offset) for g in find_asts('Name', student_code=b))
        elif how.startswith('find_matches'):
            find_matches('___', student_code=b)
        elif how.startswith('verify'):
            from pedal.source import verify
            verify(b)
        elif how.endswith('<does not parse>)'):
            find_asts('Name', student_code=b + "oops = (\n")
        elif how.startswith('parse_program'):
            got_b = sorted((g.astNode.lineno, g.astNode.col_offset) for g in parse_program(b).find_all('Name'))
        if got_b is not None and got_b != want_b:
            ctx.fail({'symptom': 'explicitly given code was not the code that was searched', 'how': how.split('(')[0],
                      'loaded': loaded}, case=case, want=want_b, got=got_b)
        elif how.startswith('next_section()'):
            from pedal.source.sections import separate_into_sections, next_section
            parts = a.split("\n", 1)
            a2 = parts[0] + "\n##### Part 1\n" + parts[1]
            cmds.clear_report()
            cmds.contextualize_report(a2)
            separate_into_sections()
            next_section()
            next_section()           # one too many: reported, and the checks see the whole file again
            w2, g2 = _lite(a2)
            if w2 != g2:
                ctx.fail({'symptom': 'checks no longer refer to the submission', 'after': how}, case=case, want=w2, got=g2)
            return
        elif how.startswith('set_source, then a helper'):
            set_source(b)
            set_source(b)            # a helper that makes sure `b` is current ...
            restore_code()           # ... and undoes its own substitution
            wb, gb = _lite(b)        # the instructor is still working on `b`
            if wb != gb:
                ctx.fail({'symptom': 'checks disagree with the tree', 'when': 'after a nested set_source/restore_code'},
                         case=case, want=wb, got=gb)
            restore_code()
        elif how.startswith('set_source'):
            set_source(b)
            wb, gb = _lite(b)
            if wb != gb:
                ctx.fail({'symptom': 'checks disagree with the tree', 'when': 'after set_source'}, case=case, want=wb, got=gb)
            restore_code()
    except Exception as e:
        ctx.fail({'symptom': 'interleaved operation raised', 'exception': type(e).__name__}, case=case, message=str(e)[:150])
        return
    ctx.step('battery on the submission again')
    want2, got2 = _lite(a)
    if want2 != got2:
        ctx.fail({'symptom': 'checks no longer refer to the submission', 'after': how}, case=case, want=want2, got=got2)


def bounds(tier):
    return {'statements': len(STM), 'max_statements': 2 if tier == 'quick' else 3,
            'later_statement_pool': 24 if tier == 'quick' else len(STM),
            'queries_per_program': '27 operators, 8 call names, 11 literals, 6 literal types, 21 node kinds, 8 modules; '
                                   'thresholds count-1,count,count+1,1,2'}


def phases(tier):
    if tier == 'quick':
        return [Phase('programs', make_body(2, 24), setup=_setup, chunk=60,
                      describe='all programs of <=2 statements (second statement from the first 24)'),
                Phase('own-report', body_own_report, setup=_setup, chunk=100,
              describe='the battery with report=<caller-owned Report> while the global report holds another program'),
        Phase('histories', body_histories, setup=_setup, chunk=200,
                      describe='battery on the submission, other code parsed explicitly / set_source+restore_code, battery again')]
    return [Phase('histories', body_histories, setup=_setup, chunk=200,
                  describe='battery on the submission, other code parsed explicitly / set_source+restore_code, battery again'),
            Phase('programs', make_body(2, len(STM)), setup=_setup, chunk=60, describe='all programs of <=2 statements'),
            Phase('programs-3', make_body(3, 14), setup=_setup, chunk=60,
                  describe='programs of 3 statements (2nd/3rd from the first 14)')]
