"""C12 -- verify() reports a syntax error exactly when CPython's parser rejects the source.

Driver B: bounded-exhaustive strings over a token alphabet, all single edits of seed
programs, and the same inside sections.  Oracle: CPython's own ast.parse.
"""
import ast
import re
from mc.explore import Phase

PROPERTY = 'C12'
RULE = ('a case is one source text (token string, edited seed, or a section of a 3-section file) given to verify(); '
        'non-trivial = CPython rejects it, or it parses to a non-empty module; distinct by (text) -- every text is distinct')
ASSUMPTIONS = ['oracle: ast.parse(text, filename) of the running CPython 3.12.1 raises any exception <=> rejected',
               'line numbers are compared only when CPython supplies one',
               'inside sections the expected line is CPython\'s lineno for the section text plus the number of '
               'original-file lines preceding the section chunk']
EXPLANATION = 'bounded-exhaustive enumeration of inputs executed on the real verify(); oracle = CPython parser'

TOK = ['a', '=', '1', '(', ')', ':', '\n', ' ', '\t', 'if ', 'def ', "'", '#', '\\', '\x00', '\r', '\x0c',
       '\u00e9', '"""', '\xa0', '# type: x', '# type: ignore']

SEEDS = [
    "a = 1\n",
    "print(a)\n",
    "if a:\n    b = 2\n",
    "def f(x):\n    return x + 1\n",
    "x = [1, 2]\nfor i in x:\n    print(i)\n",
    "s = 'it''s'\n",
    "while a < 3:\n\ta += 1\n",
    "class A:\n    def m(self):\n        pass\n",
    "a = (1 +\n     2)\n",
    "\u00e9t\u00e9 = 'caf\u00e9'\n",
    "x = {'k': [1, (2, 3)]}\n",
    "try:\n    a = 1\nexcept E:\n    pass\n",
    "# type: list of names\nnames = []  # type: list\nprint(names)  # type: ignore\n",
    "if a:  # type: bool\n    b = [1,  # type: int\n         2]\n",
    "def f(a, b):\n    # type: (int, int) -> int\n    return a\n",
    "x = 'page\x0cbreak'\n\x0c\ny = 2\n",
    # old Mac line ends (bare carriage returns) around a bracketed expression continued on the next line
    "v = [1,\r     2]\rw = (v +\rv)\r",
]
INS = ['a', '=', '1', '(', ')', ':', '\n', ' ', '\t', "'", '#', '\\', '\x00', '\r', '\x0c', '\u00e9', '"', '\xa0', ',']


def _setup():
    global cmds, MAIN_REPORT, verify, sections
    import importlib
    cmds = importlib.import_module('pedal.core.commands')
    from pedal.core.report import MAIN_REPORT
    from pedal.source import verify
    import pedal.source.sections as sections


def cpython(text, filename='answer.py'):
    try:
        tree = ast.parse(text, filename)
        return tree, None
    except BaseException as e:   # noqa
        return None, e


def judge(ctx, text, offset=0, where='whole file', do_verify=None, report=None):
    """Run verify() on the current submission (already contextualised) and compare."""
    tree, err = cpython(text)
    global_before = len(MAIN_REPORT.feedback)
    MAIN = MAIN_REPORT
    if report is not None:
        MAIN = report
    before = len(MAIN.feedback)
    ctx.step('verify')
    try:
        r = (do_verify or verify)()
    except BaseException as e:   # noqa
        import traceback
        tb = traceback.extract_tb(e.__traceback__)[-1]
        ctx.fail({'symptom': 'verify raised', 'exception': type(e).__name__,
                  'cpython': type(err).__name__ if err else 'accepts',
                  'cpython_lineno_is_none': getattr(err, 'lineno', 0) is None, 'where': where},
                 text=text, message=str(e)[:200], at='%s:%s' % (tb.filename.split('/pedal/')[-1], tb.lineno))
        ctx.outcome('raised')
        return
    new = MAIN.feedback[before:]
    if report is not None and len(MAIN_REPORT.feedback) != global_before:
        ctx.fail({'symptom': 'verify(report=own) attached feedback to the global report'}, text=text)
    syn = [f for f in new if f.category == 'syntax' and f.label in ('syntax_error', 'indentation_error')]
    blank = [f for f in new if f.label == 'blank_source']
    sig = None
    detail = {}
    if (err is not None) != bool(syn):
        sig = {'symptom': 'syntax feedback iff rejected', 'cpython_rejects': err is not None,
               'cpython': type(err).__name__ if err else 'accepts'}
    elif len(syn) > 1:
        sig = {'symptom': 'more than one syntax feedback'}
    elif err is not None and getattr(err, 'lineno', None) is not None and \
            (syn[0].location is None or syn[0].location.line != err.lineno + offset):
        sig = {'symptom': 'wrong line', 'where': where}
        detail = {'expected': err.lineno + offset, 'got': syn[0].location.line if syn[0].location else None}
    elif text.strip(' \t\n\r\x0c\x0b') == '' and not blank:
        sig = {'symptom': 'blank source not reported'}
    elif err is None and ast.dump(MAIN['source']['ast']) != ast.dump(tree):
        sig = {'symptom': 'stored tree differs from CPython'}
    elif err is None and r is not True and not blank:
        sig = {'symptom': 'verify() returned falsy for accepted text'}
    elif err is not None and r:
        sig = {'symptom': 'verify() returned truthy for rejected text'}
    if err is not None and syn:
        f = syn[0]
        want = 'indentation_error' if isinstance(err, IndentationError) else 'syntax_error'
        if f.label != want and sig is None:
            sig = {'symptom': 'wrong feedback class', 'want': want}
    ctx.outcome(type(err).__name__ if err else ('blank' if blank else 'ok'))
    if err is not None or (tree is not None and tree.body):
        ctx.mark_nontrivial(text + where)
    if sig:
        ctx.fail(sig, text=text, where=where, cpython=repr(err)[:200], **detail)


def make_tokens(max_len):
    def body(ctx):
        L = ctx.choose(max_len + 1, 'len')
        text = ''.join(TOK[ctx.choose(len(TOK), 't%d' % i)] for i in range(L))
        ctx.observe(text)
        ctx.set_sample(text)
        cmds.clear_report()
        cmds.contextualize_report(text)
        judge(ctx, text)
    return body


OTHERS = {'valid': "other = 1\nprint(other)\n", 'broken': "other = (\n", 'blank': ""}


def make_entries(max_len):
    """The same judgement through every way a text reaches the parser: verify() on the loaded submission,
    verify(text) given explicitly while another submission (valid, broken or blank) is loaded, set_source(text)."""
    entries = ['verify()', 'verify(text)|valid', 'verify(text)|broken', 'verify(text)|blank', 'set_source(text)',
               'verify(report=own)', 'set_source(text, report=own)', 'verify() inside a group named by a string']

    def body(ctx):
        entry = entries[ctx.choose(len(entries), 'entry')]
        L = ctx.choose(max_len + 1, 'len')
        text = ''.join(TOK[ctx.choose(len(TOK), 't%d' % i)] for i in range(L))
        ctx.observe(entry + text)
        ctx.set_sample({'entry': entry, 'text': text})
        cmds.clear_report()
        if entry == 'verify()':
            cmds.contextualize_report(text)
            judge(ctx, text, where=entry)
        elif entry.startswith('verify() inside a group'):
            cmds.contextualize_report(text)
            MAIN_REPORT.start_group('warmup')
            try:
                judge(ctx, text, where=entry)
            finally:
                try:
                    MAIN_REPORT.stop_group('warmup')
                except Exception:
                    pass
        elif entry.endswith('report=own)'):
            # a Report of the caller's own, while the global report holds another (broken) submission
            from pedal.core.report import Report
            from pedal.source import set_source
            cmds.contextualize_report(OTHERS['broken'])
            mine = Report()
            if entry.startswith('verify'):
                cmds.contextualize_report(text, report=mine)
                judge(ctx, text, where=entry, do_verify=lambda: verify(report=mine), report=mine)
            else:
                judge(ctx, text, where=entry, report=mine,
                      do_verify=lambda: set_source(text, report=mine) or mine['source']['success'])
        elif entry == 'set_source(text)':
            from pedal.source import set_source
            cmds.contextualize_report(OTHERS['valid'])
            # set_source verifies on its own: the judgement is made on what that call reported
            judge(ctx, text, where=entry, do_verify=lambda: set_source(text) or MAIN_REPORT['source']['success'])
        else:
            cmds.contextualize_report(OTHERS[entry.split('|')[1]])
            judge(ctx, text, where=entry.split('|')[0], do_verify=lambda: verify(text))
        for sig, det in ctx.fails:
            sig.setdefault('entry', entry)
    return body


def _edits(seed, double):
    out = []
    for i in range(len(seed)):
        out.append(seed[:i] + seed[i + 1:])
    for i in range(len(seed) + 1):
        for c in INS:
            out.append(seed[:i] + c + seed[i:])
    if double:
        for i in range(len(seed)):
            for j in range(i + 1, len(seed)):
                out.append(seed[:i] + seed[i + 1:j] + seed[j + 1:])
    return out


def make_edits(tier):
    shortest = sorted(range(len(SEEDS)), key=lambda i: len(SEEDS[i]))[:4 if tier == 'quick' else 8]
    table = [[SEEDS[i]] + _edits(SEEDS[i], i in shortest) for i in range(len(SEEDS))]

    def body(ctx):
        si = ctx.choose(len(SEEDS), 'seed')
        text = table[si][ctx.choose(len(table[si]), 'edit')]
        ctx.observe(text)
        ctx.set_sample(text)
        cmds.clear_report()
        cmds.contextualize_report(text)
        judge(ctx, text)
    return body


MARK = '##### Part %d'


def make_sections(tier):
    shortest = sorted(range(len(SEEDS)), key=lambda i: len(SEEDS[i]))[:3]
    table = []
    for i in range(len(SEEDS)):
        eds = [SEEDS[i]] + [e for e in _edits(SEEDS[i], False)
                            if not re.search(r'^##### Part', e, re.M)]
        if tier == 'quick' and i not in shortest:
            eds = eds[:1 + len(SEEDS[i])]      # deletions only
        table.append(eds)
    fillers = ["y = 0\n", "", "if y:\n    z = (1,\n         2)\n\n", "p = 'a\x0cb'\n\x0c\nq = 1\x0b\n"]

    def body(ctx):
        si = ctx.choose(len(SEEDS), 'seed')
        text = table[si][ctx.choose(len(table[si]), 'edit')]
        pos = ctx.choose(3, 'position')
        fill = fillers[ctx.choose(len(fillers), 'filler')]
        # the second header is spelled like the first one (a copied part that was not renumbered), or differently
        marks = [MARK % 1, MARK % (1 if ctx.choose(2, 'same-header') else 2)]
        chunks = [fill, fill, fill]
        chunks[pos] = text if (text.endswith('\n') or text == '') else text + '\n'
        # file: prologue, marker 1, section 1, marker 2, section 2
        original = chunks[0] + marks[0] + '\n' + chunks[1] + marks[1] + '\n' + chunks[2]
        if '\r' in text:
            # CPython counts a bare carriage return as a line end, so "lines of the original file" is ambiguous
            # for such text -- those inputs stay in phases 1/2 (form feed and vertical tab are NOT line ends for
            # CPython's parser and are kept)
            ctx.abstain()
            return
        route = ('plain', 'gradescope environment, file not called answer.py')[ctx.choose(2, 'route')]
        ctx.observe(original + route)
        ctx.set_sample({'file': original, 'section': pos, 'route': route})
        cmds.clear_report()
        env = None
        if route == 'plain':
            cmds.contextualize_report(original)
        else:
            import io, contextlib
            from pedal.environments.gradescope import GradeScopeEnvironment
            with contextlib.redirect_stdout(io.StringIO()):
                env = GradeScopeEnvironment(main_file='student_code.py', main_code=original, skip_run=True, skip_tifa=True)
        ctx.step('separate_into_sections')
        sections.separate_into_sections(independent=True)
        for k in range(3):
            if k > 0 and env is None:
                ctx.step('next_section')
                sections.next_section()
            # what the k-th chunk is, computed from the original text without pedal
            m1 = len(chunks[0])
            m2 = m1 + len(marks[0]) + 1 + len(chunks[1])
            starts = [0, m1 + len(marks[0]), m2 + len(marks[1])]
            ends = [m1, m2, len(original)]
            chunk = original[starts[k]:ends[k]]
            offset = original[:starts[k]].count('\n')
            if env is not None and k > 0:
                # the environment's own step: next section, verify (and more) in one call
                def step():
                    import io, contextlib
                    with contextlib.redirect_stdout(io.StringIO()):
                        env.next_section()
                    return MAIN_REPORT['source']['success']
                judge(ctx, chunk, offset, 'section %d (environment)' % k, do_verify=step)
            cur = MAIN_REPORT.submission.main_code
            if cur != chunk:
                ctx.fail({'symptom': 'section text is not the k-th chunk', 'k': k}, file=original, got=cur, want=chunk)
                return
            if env is None or k == 0:
                judge(ctx, chunk, offset, 'section %d' % k)
    return body


H_TEXTS = [
    "a = 1\n##### Part 1\nb = (\n##### Part 2\nc = 1\nd = )\n",
    "x = 1\ny = (\n##### Part 1\nz = 2\n",
    "q = 1\nr = (\n",
    "ok = 1\n##### Part 1\nfine = 2\n",
]
H_OPS = [('set', 0, True), ('set', 1, True), ('set', 2, False), ('set', 3, True), ('set', 0, False),
         ('next',), ('verify',), ('other-report',)]
OTHER_TEXT = "if True:\n    k = 1\n  m = 2\n"     # IndentationError on line 3
_MARK_RE = re.compile(r'^##### Part .+$', re.M)


def _chunks(text):
    """[(start, end)] of prologue and section bodies, computed without pedal."""
    spans = []
    start = 0
    for m in _MARK_RE.finditer(text):
        spans.append((start, m.start()))
        start = m.end()
    spans.append((start, len(text)))
    return spans


def make_histories(max_ops):
    def body(ctx):
        from pedal.source import set_source
        n = ctx.choose(max_ops, 'n') + 1
        cmds.clear_report()
        model = None   # (text, sectioned, k)
        hist = []
        for i in range(n):
            op = H_OPS[ctx.choose(len(H_OPS), 'op%d' % i)]
            if op[0] == 'set':
                hist.append(op)
                ctx.step(op)
                try:
                    set_source(H_TEXTS[op[1]], sections=op[2])
                except Exception as e:
                    ctx.fail({'symptom': 'set_source raised', 'exception': type(e).__name__}, history=hist, message=str(e)[:200])
                    return
                model = (H_TEXTS[op[1]], op[2], 0)
            elif op[0] == 'other-report':
                # a second, unrelated submission is verified on a Report of its own (what an environment does for the
                # next student) while this report may be in the middle of its sections: neither may shift the other
                from pedal.core.report import Report
                from pedal.core.submission import Submission
                hist.append(op)
                ctx.step(op)
                other = Report()
                other.contextualize(Submission(main_code=OTHER_TEXT, main_file='answer.py'))
                judge(ctx, OTHER_TEXT, 0, 'other report', do_verify=lambda: verify(report=other), report=other)
                if ctx.fails:
                    ctx.fails[-1][1]['history'] = list(hist)
            elif op[0] == 'next':
                if model is None or not model[1] or model[2] + 1 >= len(_chunks(model[0])):
                    ctx.outcome('op-not-enabled')
                    return   # not enabled here (past-the-end behaviour belongs to C17)
                hist.append(op)
                ctx.step(op)
                sections.next_section()
                model = (model[0], True, model[2] + 1)
            else:
                if model is None:
                    ctx.outcome('op-not-enabled')
                    return
                hist.append(op)
                text, sec, k = model
                if sec:
                    a, b = _chunks(text)[k]
                    chunk, offset = text[a:b], text[:a].count('\n')
                else:
                    chunk, offset = text, 0
                if MAIN_REPORT.submission.main_code != chunk:
                    ctx.fail({'symptom': 'current code is not the expected chunk'}, history=hist,
                             got=MAIN_REPORT.submission.main_code, want=chunk)
                    return
                judge(ctx, chunk, offset, 'history')
                if ctx.fails:
                    ctx.fails[-1][1]['history'] = list(hist)
        ctx.observe(repr(hist))
        ctx.set_sample(hist)
    return body


def bounds(tier):
    return {'token_alphabet': len(TOK), 'max_tokens': 4 if tier == 'quick' else 5, 'seeds': len(SEEDS),
            'insert_alphabet': len(INS), 'double_deletions_for_shortest': 4 if tier == 'quick' else 8,
            'sections': 'each seed/edit as section 0..2 of a 3-section file x 3 fillers (quick: deletions only '
                        'except 3 shortest seeds)'}


def phases(tier):
    return [
        Phase('token-strings', make_tokens(4 if tier == 'quick' else 5), setup=_setup,
              describe='every string of <=N tokens over the alphabet'),
        Phase('entry-points', make_entries(3), setup=_setup,
              describe='token strings of <=3 through verify(), verify(text) with another submission loaded, set_source(text)'),
        Phase('seed-edits', make_edits(tier), setup=_setup,
              describe='every single deletion/insertion (and double deletions of the shortest seeds)'),
        Phase('sections', make_sections(tier), setup=_setup,
              describe='seed edits placed inside a sectioned file; whole-file line numbers'),
        Phase('source-histories', make_histories(4 if tier == 'quick' else 6), setup=_setup,
              describe='all sequences of set_source(sections on/off)/next_section/verify over 4 files'),
    ]
