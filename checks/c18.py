"""C18 -- TIFA analyses every parsable program, deterministically and idempotently.

Driver B: (i) a snippet for every statement/expression form of Python 3.12, in six
containers and in every ordered pair; (ii) every builtin function and every
str/list/dict/set/file/tuple method TIFA registers x argument shapes (read from the
registry at run time); (iii) a flow grammar.  Oracle: returns, completes (subset),
idempotent, deterministic on a fresh report, lines within the source.
"""
import ast
import itertools
from mc.explore import Phase

PROPERTY = 'C18'
RULE = ('a case is one syntactically valid program analysed three times (twice on one report through the default-argument '
        'path, once on a fresh report); non-trivial = the program produces at least one TIFA issue or contains a call '
        'of a registered builtin/method or a compound statement; distinct by program text')
ASSUMPTIONS = ['"introductory subset" for the completes clause = registry phase (builtin functions/methods with 0-2 positional '
               'and keyword arguments) + flow phase + the snippets marked INTRO; other language forms are checked for '
               'never-raises/idempotence/line range only and their internal failures are reported as information',
               'issues are compared as (label, name, line) multisets']
EXPLANATION = 'bounded-exhaustive program families on the real tifa_analysis; invariants over repeated analyses'

# (snippet, belongs to the introductory subset?)
SNIP = [
    ("x = 1", 1), ("x: int = 1", 1),
    # calls with the wrong number of arguments (too many, too few, none expected)
    ("def area(w, h):\n    return w * h\nprint(area(2, 3, 4))", 1), ("def banner():\n    print('-')\nbanner(20)", 1),
    ("def area(w, h):\n    return w * h\nprint(area(2))", 1), ("def opt(a, b=2):\n    return a + b\nprint(opt(1, 2, 3), opt())", 1),
    # a comprehension whose loop variable has the name of an existing variable of another type (issues located at the
    # comprehension itself)
    ("x = 'abc'\nys = [x for x in [1, 2]]\nprint(ys, x)", 1), ("i = 'k'\nzs = {i: i for i in range(3)}\nprint(zs, i)", 0), ("a, *b = [1, 2, 3]", 0), ("x = [i for i in range(3)]", 1),
    ("x = {i: i for i in range(3)}", 0), ("x = {i for i in range(3)}", 0), ("x = sum(i for i in range(3))", 0),
    ("f = lambda a: a", 0), ("def fn(a, b=1, *c, d=2, **e):\n    return a", 0),
    ("class A:\n    x = 1\n    def m(self):\n        return self.x", 0),
    ("try:\n    x = 1\nexcept ValueError as e:\n    print(e)\nelse:\n    pass\nfinally:\n    pass", 0),
    ("with open('f') as fh:\n    pass", 0), ("while True:\n    break\nelse:\n    pass", 1),
    ("for i in range(3):\n    continue", 1), ("import math", 1), ("from math import sqrt as s", 1),
    ("x = 1 if True else 2", 1), ("x = f'{1}a'", 1), ("x = [1, 2][0:1]", 1), ("x = not True", 1), ("x = -1", 1),
    ("x = 1 < 2 < 3", 1), ("del x", 0), ("global g", 0), ("assert True, 'm'", 0), ("raise ValueError('x')", 0),
    ("x = (y := 3)", 0),
    ("match 1:\n    case 1:\n        pass\n    case [a, b]:\n        pass\n    case {'k': v}:\n        pass\n"
     "    case A(x=1) | None:\n        pass\n    case _:\n        pass", 0),
    ("x = 1; x += 1", 1), ("x = [1]; x[0] += 1", 1), ("x = ...", 0), ("x = b'ab'", 0), ("x = 1j", 0),
    ("x = {**{'a': 1}}", 0), ("print(*[1, 2])", 0), ("x = [*[1], 2]", 0), ("@staticmethod\ndef sf(): pass", 0),
    ("type X = int", 0), ("x = 'a' 'b'", 1), ("x = [1, 2, 3][::2]", 1), ("x = 1 @ 2", 0), ("import os.path", 1),
    ("async def af():\n    await g()\n    async for i in g():\n        pass\n    async with g() as h:\n        pass", 0),
    ("def gf():\n    yield 1\n    x = yield\n    yield from [1]", 0),
    ("def nl():\n    n = 1\n    def inner():\n        nonlocal n\n        n = 2\n    inner()", 0),
    ("try:\n    pass\nexcept* ValueError:\n    pass", 0), ("def gen[T](a: T) -> T:\n    return a", 0),
    ("class G[T]:\n    pass", 0), ("x = a.b.c = 1", 0), ("x = a[1][2]", 0), ("x = a(1)(2)", 0), ("x = (1, *[2])", 0),
    ("x = {1, *[2]}", 0), ("return 5", 0),
    ("def add(a, b):\n    return a + b\nr = add(1, 2)\nprint(r)", 1),
    ("if x:\n    y = 1\nelif z:\n    y = 2\nelse:\n    y = 3\nprint(y)", 1),
    ("d = {'a': 1}\nfor k in d:\n    print(d[k])", 1), ("s = 'abc'\nprint(s.upper(), len(s))", 1),
    ("nums = [1, 2]\nnums.append(3)\ntotal = 0\nfor n in nums:\n    total = total + n\nprint(total)", 1),
    ("x = [1, 2, 3]\nprint(sorted(x), list(reversed(x)))", 1), ("import random\nr = random.randint(1, 2)", 1),
    ("x = int(input('n'))\nprint(x % 2 == 0 and x > 3 or not x)", 1),
    ("pair = (1, 2)\nx = pair[0]\ny = pair[2]\nz = pair[-1]\nw = pair[5]", 1),
    ("for k, v in {'a': 1}.items():\n    print(k, v)\nq, r = divmod(7, 2)\nprint(q, r)", 1),
    ("for i, e in enumerate(['a']):\n    print(i, e)", 1),
    ("xs: list[int] = []\nxs.append(1)\nprint(xs)", 1), ("t = list()\nt.append('a')\nprint(t)", 1),
    ("u = set()\nu.add(1)\nprint(u)", 1), ("s2: set[str] = set()\ns2.add('a')", 1),
    ("def f(a: list[str]) -> dict[str, int]:\n    return {}\nprint(f(['a']))", 1),
    ("d2: dict[str, int] = dict()\nd2['a'] = 1\nprint(d2)", 1), ("tp: tuple[int, str] = (1, 'a')\nprint(tp[1])", 1),
    ("lst = [1, 2, 3]\nprint(lst[3], lst[-1], lst[0:2])", 1), ("word = 'abc'\nprint(word[3], word[-1])", 1),
    # a standard module read, and written (the pair collides on the process-wide module types)
    ("import math\nradius = 2\narea = math.pi + radius\nprint(area)", 1),
    ("import math\nmath.pi = 'about three'\nprint(math.pi)", 1),
    # tuples that reach + as a parameter, a slice, a repetition (not as literals)
    ("def extend(point):\n    return point + (0,)\nq = extend((1, 2))\nprint(q)", 1),
    ("a = (1, 2, 3)\nb = a[:2] + (9,)\nprint(b)", 1), ("c = (1, 2) * 2 + (3,)\nprint(c)", 1),
    ("def pair(v):\n    return (v, v)\np4 = pair(1) + pair('a')\nprint(p4)", 1),
    # a method the type tables do not know, and one they do (attribute lookups walk shared parent types)
    ("price = 2.5\nprint(price.hex())", 0), ("price = 2.5\nwhole = price.is_integer()\nprint(whole + 'x')", 0),
    ("count = 3\nprint(count.bit_count())", 0), ("count = 3\nparts = count.as_integer_ratio()\nprint(parts)", 0),
    ("word = 'abc'\nprint(word.casefold_x())", 0), ("word = 'abc'\nn = word.upper().count('A')\nprint(n + 'x')", 0),
]
WRAP = ["{}", "def w():\n{i}\nw()", "if True:\n{i}", "for q in range(2):\n{i}", "class W:\n{i}", "while False:\n{i}",
        "try:\n{i}\nexcept Exception:\n    pass"]
ARGS = ["", "1", "'a'", "[1, 2]", "x", "lambda v: v", "1, 2", "'a', 'b'", "[1], 0", "key=len", "x, key=lambda v: v",
        "None, x", "x, reverse=True", "2.5, ndigits=1", "x, start=1", "'a', sep='-', end=''", "x, default=0"]
METHOD_ARGS = ARGS[:9] + ["sep=','", "'a', maxsplit=1", "key=len, reverse=True", "'k', default=None"]


def ind(s):
    return "\n".join("    " + l for l in s.split("\n"))


def _valid(code):
    try:
        ast.parse(code)
        return True
    except SyntaxError:
        return False


def _setup():
    global cmds, tifa_analysis, MAIN_REPORT, REGISTRY
    import importlib
    cmds = importlib.import_module('pedal.core.commands')
    from pedal.tifa import tifa_analysis
    from pedal.core.report import MAIN_REPORT
    from pedal.types.new_types import BUILTIN_NAMES, StrType, ListType, DictType, SetType, FileType, TupleType
    import pedal.types.builtin  # noqa
    progs = []
    for name in sorted(BUILTIN_NAMES):
        if not name.isidentifier() or name.startswith('_'):
            continue     # dunder helpers such as __import__ are not part of the introductory subset
        for a in ARGS:
            progs.append(("x = [3, 1]\nr = %s(%s)\nprint(r)\n" % (name, a), name))
        progs.append(("x = [3, 1]\n%s(x)\n" % name, name))
        progs.append(("x = [3, 1]\nfor it in %s(x):\n    print(it)\n" % name, name))
    tables = {'str': ("'ab'", StrType.fields), 'list': ("[1, 2]", ListType.fields), 'dict': ("{'k': 1}", DictType.fields),
              'set': ("{1, 2}", SetType.fields), 'file': ("open('f.txt')", FileType.fields),
              'tuple': ("(1, 2)", getattr(TupleType, 'fields', {}))}
    for k, (recv, fields) in tables.items():
        for m in sorted(fields):
            for a in METHOD_ARGS:
                progs.append(("x = [3, 1]\no = %s\nr = o.%s(%s)\nprint(r)\n" % (recv, m, a), '%s.%s' % (k, m)))
    REGISTRY = [(c, n) for c, n in progs if _valid(c)]


def _issues(t):
    out = []
    for lab, iss in t.issues.items():
        for i in iss:
            out.append((lab, str(i.fields.get('name', '')), i.location.line if i.location is not None else None))
    return sorted(out, key=repr)


def analyse(ctx, code, must_complete, what):
    nlines = len(code.split("\n"))
    cmds.clear_report()
    cmds.contextualize_report(code)
    ctx.step('tifa_analysis')
    try:
        t = tifa_analysis()
    except BaseException as e:   # noqa
        ctx.fail({'symptom': 'tifa_analysis raised', 'exception': type(e).__name__}, program=code, message=str(e)[:200])
        return
    nf = (len(MAIN_REPORT.feedback), len(MAIN_REPORT.ignored_feedback))
    first = _issues(t)
    if first or must_complete:
        ctx.mark_nontrivial(code)
    ctx.step('tifa_analysis (again)')
    try:
        t2 = tifa_analysis()
    except BaseException as e:   # noqa
        ctx.fail({'symptom': 'second tifa_analysis raised', 'exception': type(e).__name__}, program=code)
        return
    if (len(MAIN_REPORT.feedback), len(MAIN_REPORT.ignored_feedback)) != nf:
        ctx.fail({'symptom': 'analysing the same code again attached more feedback'}, program=code,
                 before=nf, after=(len(MAIN_REPORT.feedback), len(MAIN_REPORT.ignored_feedback)))
    if _issues(t2) != first:
        ctx.fail({'symptom': 'second analysis yields different issues'}, program=code, first=first, second=_issues(t2))
    # explicit-code path on the same report
    try:
        t2b = tifa_analysis(code)
        if _issues(t2b) != first:
            ctx.fail({'symptom': 'analysis with explicit code yields different issues'}, program=code)
    except BaseException as e:   # noqa
        ctx.fail({'symptom': 'tifa_analysis(code) raised', 'exception': type(e).__name__}, program=code)
    # the same text below two blank lines is another text: same issues, two lines further down -- and the original
    # text analysed once more afterwards still has its own lines (both on the report that analysed the first)
    try:
        import re as _re
        if _re.search(r'^\s*\w+(\.\w+)+\s*=[^=]', code, _re.M):
            # a program that assigns into an attribute (of a module, say) changes what the report's analyser knows about
            # that object for every *other* text analysed afterwards; the statement speaks of the same code only
            raise StopIteration
        t2c = tifa_analysis("\n\n" + code)
        down = sorted([(lab, name, None if line is None else line + 2) for lab, name, line in first], key=repr)
        if _issues(t2c) != down:
            ctx.fail({'symptom': 'analysis of the same text below blank lines yields different issues or lines'},
                     program=code, alone=first, below_two_blank_lines=_issues(t2c))
        t2d = tifa_analysis(code)
        if _issues(t2d) != first:
            ctx.fail({'symptom': 'analysis after the shifted text was analysed yields different issues or lines'},
                     program=code, first=first, again=_issues(t2d))
    except StopIteration:
        ctx.abstain()
    except BaseException as e:   # noqa
        ctx.fail({'symptom': 'tifa_analysis(blank lines + code) raised', 'exception': type(e).__name__}, program=code)
    for lab, name, line in first:
        if line is not None and not (1 <= line <= nlines):
            ctx.fail({'symptom': 'issue line outside the analysed source', 'label': lab}, program=code, line=line)
    # determinism on a fresh report
    cmds.clear_report()
    cmds.contextualize_report(code)
    ctx.step('tifa_analysis (fresh report)')
    t3 = tifa_analysis()
    if _issues(t3) != first or bool(t3.success) != bool(t.success):
        ctx.fail({'symptom': 'fresh report yields different issues'}, program=code, first=first, third=_issues(t3))
    # the same analysis addressed to a Report of the caller's own: same issues, recorded there and only there
    from pedal.core.report import Report
    mine = Report()
    cmds.contextualize_report(code, report=mine)
    g0 = (len(MAIN_REPORT.feedback), len(MAIN_REPORT.ignored_feedback))
    ctx.step('tifa_analysis(report=own)')
    try:
        t4 = tifa_analysis(report=mine)
        if _issues(t4) != first or bool(t4.success) != bool(t.success):
            ctx.fail({'symptom': 'analysis on an own report yields different issues'}, program=code, first=first, own=_issues(t4))
        if (len(MAIN_REPORT.feedback), len(MAIN_REPORT.ignored_feedback)) != g0:
            ctx.fail({'symptom': 'analysis on an own report attached feedback to the global report'}, program=code,
                     labels=sorted({f.label for f in MAIN_REPORT.feedback[g0[0]:]}))
        recorded = {id(f) for f in mine.feedback} | {id(f) for f in mine.ignored_feedback}
        lost = sorted({lab for lab, iss in t4.issues.items() for i in iss if id(i) not in recorded})
        if lost:
            ctx.fail({'symptom': 'issues of an analysis on an own report are not recorded on that report'}, program=code, labels=lost)
    except BaseException as e:   # noqa
        ctx.fail({'symptom': 'tifa_analysis(report=own) raised', 'exception': type(e).__name__}, program=code, message=str(e)[:200])
    # the same program as the second part of a file analysed section by section: the same issues, each on its line of
    # the *file* (which is also "within the analysed source": the file the student handed in)
    pre = "pre0 = 0\nprint(pre0)\n##### Part 1\n"
    cmds.clear_report()
    cmds.contextualize_report(pre + code)
    ctx.step('tifa_analysis (as section 1 of a sectioned file)')
    try:
        from pedal.source.sections import separate_into_sections, next_section
        separate_into_sections(independent=True)
        next_section()
        t5 = tifa_analysis()
        shifted = sorted([(lab, name, None if line is None else line + 3) for lab, name, line in first], key=repr)
        if _issues(t5) != shifted or bool(t5.success) != bool(t.success):
            ctx.fail({'symptom': 'analysis as a section of a file yields different issues or lines'}, program=code,
                     alone=first, as_section=_issues(t5), offset=3)
    except BaseException as e:   # noqa
        ctx.fail({'symptom': 'tifa_analysis in a section raised', 'exception': type(e).__name__}, program=code, message=str(e)[:200])
    if not t.success:
        if must_complete:
            ctx.fail({'symptom': 'internal failure instead of a completed analysis', 'what': what,
                      'error': repr(t.error)[:70]}, program=code)
        else:
            ctx.info['internal_failures_outside_the_subset'] += 1
        ctx.outcome('internal-failure')
    else:
        ctx.outcome('issues:%d' % min(len(first), 3))


def body_forms(ctx):
    si = ctx.choose(len(SNIP), 'snippet')
    wi = ctx.choose(len(WRAP), 'container')
    s, intro = SNIP[si]
    w = WRAP[wi]
    code = s if w == "{}" else w.replace("{i}", ind(s))
    if not _valid(code):
        ctx.abstain()
        return
    ctx.observe(code)
    ctx.set_sample(code)
    analyse(ctx, code + "\n", bool(intro) and wi in (0, 1, 2, 3), 'snippet %d in container %d' % (si, wi))


def body_pairs(ctx):
    a = ctx.choose(len(SNIP), 'first')
    b = ctx.choose(len(SNIP), 'second')
    code = SNIP[a][0] + "\n" + SNIP[b][0] + "\n"
    if not _valid(code):
        ctx.abstain()
        return
    ctx.observe(code)
    ctx.set_sample(code)
    analyse(ctx, code, bool(SNIP[a][1] and SNIP[b][1]), 'pair')


INTRO_IDX = [i for i, (c, intro) in enumerate(SNIP) if intro]


def body_triples(ctx):
    idx = [INTRO_IDX[ctx.choose(len(INTRO_IDX), 's%d' % i)] for i in range(3)]
    code = "\n".join(SNIP[i][0] for i in idx) + "\n"
    if not _valid(code):
        ctx.abstain()
        return
    ctx.observe(code)
    ctx.set_sample(code)
    analyse(ctx, code, True, 'triple')


REF = {}


def _fresh_issue_list(i):
    """issues of SNIP[i] analysed first in this interpreter (used in a subprocess)"""
    _setup()
    code = SNIP[i][0] + "\n"
    cmds.clear_report()
    cmds.contextualize_report(code)
    t = tifa_analysis()
    return [bool(t.success), [list(x) for x in _issues(t)]]


def compute_references():
    import json
    import os
    import subprocess
    import sys
    here = os.path.dirname(os.path.dirname(os.path.abspath(__file__)))
    todo = [i for i in range(len(SNIP)) if i not in REF and _valid(SNIP[i][0])]
    for lo in range(0, len(todo), 16):
        procs = {}
        for i in todo[lo:lo + 16]:
            code = ("import sys, json, warnings; warnings.filterwarnings('ignore'); sys.stdin = open('/dev/null');"
                    "sys.path.insert(0, %r); sys.path.insert(0, %r);"
                    "from checks import c18; print('\\n@@' + json.dumps(c18._fresh_issue_list(%d)))"
                    % (here, os.environ.get('PEDAL_REPO', '/repo'), i))
            procs[i] = subprocess.Popen([sys.executable, '-c', code], stdout=subprocess.PIPE, stderr=subprocess.PIPE,
                                        text=True, cwd='/')
        for i, p in procs.items():
            so, se = p.communicate()
            line = [l for l in so.split("\n") if l.startswith('@@')]
            if not line:
                raise RuntimeError('reference analysis of snippet %d failed: %s' % (i, se[-300:]))
            REF[i] = json.loads(line[-1][2:])


def body_sequence(ctx):
    """Analyses of different programs in one process: each must equal the analysis of the same program made first
    in a fresh interpreter (process-wide type tables must not remember earlier programs)."""
    a = ctx.choose(len(SNIP), 'first-program')
    b = ctx.choose(len(SNIP), 'second-program')
    if a not in REF or b not in REF:
        ctx.abstain()
        return
    ctx.observe(repr((a, b)))
    ctx.set_sample({'first': SNIP[a][0], 'second': SNIP[b][0]})
    ctx.mark_nontrivial(repr((a, b)))
    for pos, i in enumerate((a, b)):
        code = SNIP[i][0] + "\n"
        cmds.clear_report()
        cmds.contextualize_report(code)
        ctx.step('tifa_analysis')
        try:
            t = tifa_analysis()
        except BaseException as e:   # noqa
            ctx.fail({'symptom': 'tifa_analysis raised', 'exception': type(e).__name__}, program=code)
            return
        got = [bool(t.success), [list(x) for x in _issues(t)]]
        if got != REF[i]:
            ctx.fail({'symptom': 'analysis differs from the same analysis in a fresh interpreter',
                      'position': pos}, program=code, earlier=SNIP[a][0] if pos else '(earlier executions of this worker)',
                     fresh=REF[i], got=got)
            return
    ctx.outcome('same')


def body_registry(ctx):
    i = ctx.choose(len(REGISTRY), 'program')
    code, name = REGISTRY[i]
    ctx.observe(code)
    ctx.set_sample(code)
    analyse(ctx, code, True, name)


FLOW = ["v = 1", "print(v)", "w = v", "v = v + w", "if c:\n    v = 2", "if c:\n    v = 2\nelse:\n    w = 3",
        "while c < 3:\n    c = c + 1\n    v = c", "for i in [1, 2]:\n    v = i", "def f():\n    return v\nf()",
        "def g(p):\n    q = p\n    return q\nw = g(1)"]


def body_flow(ctx):
    n = ctx.choose(3, 'n') + 1
    stmts = [FLOW[ctx.choose(len(FLOW), 's%d' % i)] for i in range(n)]
    code = "c = int(input())\n" + "\n".join(stmts) + "\n"
    ctx.observe(code)
    ctx.set_sample(code)
    analyse(ctx, code, True, 'flow')


MF_MAIN = ["import helper\nprint(helper.HX + 1)\nprint(undefined_v)", "from helper import hf\nz = hf(2)\nunused = 1",
           "import helper\nimport other\nprint(helper.hf(other.OY))\nprint(nowhere)", "x = 1\nprint(y)"]
MF_FILES = {'helper.py': "HX = 1\ndef hf(a):\n    return a + HX\n", 'other.py': "OY = 'text'\nunused_in_other = 3\n"}
MF_BETWEEN = [None, 'provide-unrelated-module-type', 'provide-twice']


def body_multifile(ctx):
    """Submissions made of several files (the main file imports student files) and instructor-described modules:
    analysing the same code again yields the same issues and attaches nothing more."""
    from pedal.core.submission import Submission
    from pedal.tifa.commands import tifa_provide_module_type
    main = MF_MAIN[ctx.choose(len(MF_MAIN), 'main')] + "\n"
    between = MF_BETWEEN[ctx.choose(len(MF_BETWEEN), 'between')]
    times = ctx.choose(2, 'repetitions') + 2
    files = dict(MF_FILES)
    files['answer.py'] = main
    case = {'main': main, 'between': between, 'times': times}
    ctx.observe(repr(case))
    ctx.set_sample(case)
    ctx.mark_nontrivial(repr(case))
    cmds.clear_report()
    cmds.contextualize_report(Submission(files=files, main_file='answer.py', main_code=main))
    try:
        t = tifa_analysis()
        first = _issues(t)
        nf = (len(MAIN_REPORT.feedback), len(MAIN_REPORT.ignored_feedback))
        for k in range(times - 1):
            if between:
                tifa_provide_module_type('coursemod%d' % (k if between == 'provide-twice' else 0), {'answer': 'int'})
            ctx.step('tifa_analysis (again)')
            t2 = tifa_analysis()
            if _issues(t2) != first:
                ctx.fail({'symptom': 'second analysis yields different issues', 'submission': 'several files'}, program=main,
                         first=first, second=_issues(t2), between=between)
            if (len(MAIN_REPORT.feedback), len(MAIN_REPORT.ignored_feedback)) != nf:
                ctx.fail({'symptom': 'analysing the same code again attached more feedback', 'submission': 'several files'},
                         program=main, before=nf, after=(len(MAIN_REPORT.feedback), len(MAIN_REPORT.ignored_feedback)), between=between)
                break
    except BaseException as e:   # noqa
        ctx.fail({'symptom': 'tifa_analysis raised', 'exception': type(e).__name__}, program=main, message=str(e)[:200])
    ctx.outcome('multi-file')


def bounds(tier):
    return {'snippets': len(SNIP), 'containers': len(WRAP), 'pairs': len(SNIP) ** 2,
            'registry': 'every BUILTIN_NAMES entry x %d argument shapes + statement/iterable uses; every str/list/dict/'
                        'set/file/tuple method x %d argument shapes' % (len(ARGS), len(METHOD_ARGS)),
            'flow': 'all sequences of <=3 statements over %d flow statements' % len(FLOW)}


def phases(tier):
    compute_references()
    return [Phase('program-sequences', body_sequence, setup=_setup, chunk=200,
                  describe='every ordered pair of snippets analysed one after the other, each compared with a fresh-interpreter analysis'),
            Phase('several-files', body_multifile, setup=_setup, chunk=10,
                  describe='main files importing student files, module types provided between repeated analyses'),
            Phase('forms', body_forms, setup=_setup, chunk=40, describe='every language-form snippet x container'),
            Phase('pairs', body_pairs, setup=_setup, chunk=100, describe='every ordered pair of snippets'),
            Phase('registry', body_registry, setup=_setup, chunk=100, describe='every registered builtin/method x argument shapes'),
            Phase('flow', body_flow, setup=_setup, chunk=100, describe='flow grammar (branches, loops, functions)')] + (
        [Phase('intro-triples', body_triples, setup=_setup, chunk=200,
               describe='every ordered triple of the introductory-subset snippets (%d^3)' % len(INTRO_IDX))] if tier == 'thorough' else [])
