"""C06 -- sandboxed execution is observationally equivalent to plain CPython execution.

Driver B: all programs of <=N statements over a CS1 statement alphabet x input queues,
run in the real sandbox and as __main__ under plain exec(); and student functions x
argument tuples through call().  Oracle: CPython itself.
"""
import contextlib
import io
import traceback
from mc.explore import Phase

PROPERTY = 'C06'
RULE = ('a case is (program, input queue) executed in the sandbox and under plain CPython, or (student function, argument '
        'tuple) called through call() and directly; non-trivial = the program prints, reads input, defines a function/class '
        'or raises, or the argument is not an int; distinct by (program, queue) / (function, arguments)')
ASSUMPTIONS = ['reference run: the same source exec()d as __main__ in a fresh dict with input replaced by a FIFO model that '
               'echoes like the sandbox (echo format and empty-queue default calibrated per worker)',
               'values compared by repr for JSON-like data and by type name for functions/classes/instances',
               'names the sandbox adds to the student namespace are calibrated from an empty program',
               'the per-execution line list (get_output) is compared with the reference text split into right-stripped lines']
EXPLANATION = 'bounded-exhaustive programs x input queues and functions x arguments on the real sandbox; oracle = CPython'

STM = [
    "x = 5", "y = x + 2", "x += 1", "s = 'ab' * 2", "print(x)", "print('a', 'b', sep='-', end='!')", "print()",
    "n = input()", "m = int(input('num? '))", "print(n)", "lst = [1, 2, 3]", "lst.append(x)", "d = {'k': 1}", "t = (1, 'a')",
    "for i in range(2):\n    print(i)", "while x > 3:\n    x -= 1", "if x > 2:\n    z = 1\nelse:\n    z = 2",
    "def f(a, b=2):\n    return a + b", "r = f(1)", "r = f(1, b=5)",
    "class P:\n    def __init__(self, v):\n        self.v = v\n    def get(self):\n        return self.v", "p = P(3)",
    "print(p.get())", "sq = [i*i for i in range(3)]", "try:\n    q = 1 / 0\nexcept ZeroDivisionError:\n    q = -1",
    "import math", "rt = math.sqrt(16)", "print(undefined_name)", "w = 1 / 0", "print(lst[10])",
    "if __name__ == '__main__':\n    main_ran = True", "print(f'{x:>4}')", "def g():\n    global x\n    x = 100", "g()",
    "len = 5", "print(len([1]))", "print(sorted(d.items()))", "print(type(x).__name__)", "u = str(x) + 'q'",
    "v = x // 2 + x % 2 + x ** 2", "print('x\\ry')", "name = input('who? ')\nprint('[' + name + ']')",
    "print('  pad  ')", "import sys\nsys.stdout.write('w')",
    "def cd(k):\n    if k == 0:\n        return 1 / 0\n    return cd(k - 1)\ncd(12)",
    "def area(wd: int, ht: itn) -> int:\n    return wd * ht",
    "def ann(a: int, b: str = 's') -> float:\n    return 1.0\nprint(ann.__annotations__)",
    "count: int = 3\nprint(__annotations__)",
    "import helper\nprint(helper.HX)", "from helper import hf\nprint(hf(2))", "import helper as hh\nhh.HX = 5\nprint(hh.hf(1))",
    "def late():\n    import helper\n    return helper.HX\nprint(late())",
    "fh = open('data.txt')\nprint(fh.read())\nfh.close()", "with open('data.txt') as fh2:\n    for ln in fh2:\n        print(ln.strip())",
]
# a second alphabet: language semantics where running in a dict through exec(), with mocked builtins and modules,
# could differ from running the file (scoping, class bodies, generators, decorators, imports, formatting, exits)
LANG = ['x = 5',
        # functions that receive values which cannot be copied or looked at twice (views, generators, files, modules)
        "def total(vs):\n    return sum(vs)\nprices = {'a': 1, 'b': 2}\nprint(total(prices.values()), total(v for v in [1, 2]))",
        "import math\ndef area(m, r):\n    return m.pi * r\nprint(round(area(math, 2), 2))",
        "def first(it):\n    return next(it)\nprint(first(iter([7, 8])), first(zip('ab', 'cd')))",
 'def outer():\n    k = 1\n    def inner():\n        nonlocal k\n        k += 1\n        return k\n    return inner()\nprint(outer())',
 'gen = (i for i in range(3))\nprint(next(gen), list(gen))',
 'def gf():\n    yield 1\n    yield 2\nprint(list(gf()))',
 'class A:\n    cnt = 0\n    def inc(self):\n        A.cnt += 1\n        return A.cnt\nprint(A().inc(), A().inc())',
 'class B:\n    base = 2\n    vals = [i for i in range(3)]\nprint(B.vals, B.base)',
 "try:\n    raise ValueError('v')\nexcept ValueError as e:\n    print(repr(e), e.args)\nfinally:\n    print('fin')",
 "assert x == 5, 'msg'",
 "assert x == 6, 'wrong x'",
 'print(isinstance(True, int), 0.1 + 0.2, 7 // -2, -7 % 3, round(2.5), round(3.5))',
 'a, *b = [1, 2, 3]\nprint(a, b)',
 "print({1, 2} | {3}, {**{'a': 1}, 'b': 2})",
 "print('%s-%d' % ('a', 3), '{}:{:>3}'.format(1, 2))",
 "import random\nrandom.seed(3)\nprint(random.randint(1, 100), random.choice('abc'))",
 'import time\nt0 = time.time() > 0\ntime.sleep(0)\nprint(t0)',
 'from math import *\nprint(floor(2.5), pi > 3)',
 'import math as m\nprint(m.floor(-0.5), m.isclose(0.1 + 0.2, 0.3))',
 "print(max([3, 1, 2]), min('bca'), sum([0.1] * 3), abs(-2), divmod(7, 2))",
 "print(list(map(str, [1, 2])), list(zip('ab', [1, 2])), list(enumerate('ab')))",
 "s2 = 'héllo ✓'\nprint(s2, len(s2), s2.upper())",
 "print('a\\tb\\\\n', r'raw\\n')",
 "def rec(n):\n    return rec(n + 1)\ntry:\n    rec(0)\nexcept RecursionError:\n    print('deep')",
 "import sys\nprint('bye')\nsys.exit(2)",
 'raise SystemExit',
 "raise KeyError('k')",
 'raise Exception',
 "class E(Exception):\n    pass\ntry:\n    raise E('boom')\nexcept E as err:\n    print(type(err).__name__, err)",
 "class E2(Exception):\n    pass\nraise E2('out')",
 "def deco(fn):\n    def wrap(*a):\n        print('call')\n        return fn(*a)\n    return wrap\n@deco\ndef hi(n):\n    return n\nprint(hi(2))",
 'print(sum(i for i in range(4) if i % 2))',
 'def show():\n    print(x)\nshow()\nx = 6\nshow()',
 'import helper\nimport helper\nprint(helper.hf(1))',
 'from dataclasses import dataclass\n@dataclass\nclass Pt:\n    px: int\n    py: int = 0\nprint(Pt(1), Pt(1) == Pt(1, 0))',
 "import json\nprint(json.dumps({'a': [1, 2]}), json.loads('[1, 2]'))",
 'print(str(1e100), 10 ** 20, 1 / 3, 2 ** 0.5)',
 "print(chr(65), ord('a'), hex(255), bin(5), repr('q'), ascii('é'))",
 'print(bool([]), None is None, 1 if x else 2)',
 "words = 'the quick brown'.split()\nprint(sorted(words, key=len, reverse=True), ' '.join(reversed(words)))",
 "total = 0\nfor i, ch in enumerate('abc'):\n    if ch == 'b':\n        continue\n    total += i\nelse:\n    print('done', total)",
 'while True:\n    x -= 1\n    if x < 3:\n        break\nprint(x)',
 'mat = [[0] * 2 for _ in range(2)]\nmat[0][1] = 7\nprint(mat)',
 'alias = lst2 = [1]\nalias.append(2)\nprint(lst2 is alias, lst2)',
 'print(type(print).__name__, type(len).__name__, callable(input))',
 "print(int('12') + float('1.5'), str(3) * 2, list('ab'), tuple([1]), set([1, 1]), dict(a=1))",
 'tmp = 1\ndel tmp',
 'import string\nprint(string.ascii_lowercase[:3], string.digits)',
 'def kwonly(a, /, b, *, c=3, **rest):\n    return a, b, c, rest\nprint(kwonly(1, 2, d=4))',
 "print(*[1, 2], sep='')\nprint('no newline', end='')\nprint()",
 'print(x if x > 3 else -x, (lambda q: q * 2)(x), [y for y in range(x) if y > 2])',
 'n2 = 0\ndef bump():\n    n2 = 1\n    return n2\nprint(bump(), n2)',
 "def uses_before():\n    print(late_name)\nlate_name = 'ok'\nuses_before()",
 'def bad_local():\n    print(x)\n    x = 1\nbad_local()']
# an exception that leaves through the student's own clean-up code (the reported line is where it was raised)
LANG += ["log = []\ndef avg(v):\n    try:\n        return sum(v) / len(v)\n    finally:\n        log.append('a')\n        log.append('b')\navg([])",
         "def parse(t):\n    try:\n        n = int(t)\n    except ValueError:\n        print('bad', t)\n        raise\n    return n\nparse('twelve')",
         "class M:\n    def __enter__(self):\n        return self\n    def __exit__(self, *a):\n        done = 1\n        return False\nwith M():\n    y = 1\n    1 / 0\n    z = 2",
         "try:\n    1 / 0\nfinally:\n    print('cleanup')\n    marker = 1"]
QUEUES = [[], ['3'], ['3', 'x'], ['3 ', ' x\t']]
EXTRA_FILES = {'helper.py': "print('loading helper')\nHX = 1\ndef hf(a):\n    return a + HX\n",
               'data.txt': "line one\nline two\n"}

FUNCS = """
def ident(v):
    return v
def double(v):
    return v * 2
def first(seq):
    return seq[0]
def total(seq):
    t = 0
    for e in seq:
        t = t + e
    return t
def kw(a, b=1, *, c=2):
    return (a, b, c)
def boom(v):
    return 1 / v
def shout(v):
    print('got', v)
    return str(v).upper()
def rec(n):
    return 1 if n <= 0 else n * rec(n - 1)
def typename(v):
    return type(v).__name__
def keys(d):
    return sorted(d)
def isnan(v):
    return v != v
def mutate(seq):
    seq.append(0)
    return len(seq)
class Thing:
    def __init__(self):
        self.v = 1
# the student's own globals with the names of builtins the sandbox replaces: they shadow the builtins, as in Python
exit = 5
compile = 'mine'
def input(prompt=''):
    return 'typed'
def shadowed(v):
    return (exit, compile, input('?'), v)
"""
FNAMES = ['ident', 'double', 'first', 'total', 'boom', 'shout', 'rec', 'typename', 'keys', 'isnan', 'mutate', 'shadowed']
ARGS = [0, 3, -2, 2.5, float('inf'), float('-inf'), float('nan'), True, None, 'ab', "it's", 'q"uote', 'new\nline', 'back\\slash',
        [1, 2], [], (1, 2), {'a': 1}, {1, 2}, [[1], {'k': (2, 3)}], list(range(300)), {'x': float('inf')}, [float('nan')],
        int, len, '']


def _setup():
    global cmds, sb_cmds, CAL, ECHO, DEFAULT, unwrap_value
    import importlib
    cmds = importlib.import_module('pedal.core.commands')
    sb_cmds = importlib.import_module('pedal.sandbox.commands')
    from pedal.sandbox.result import unwrap_value
    cmds.clear_report()
    cmds.contextualize_report("\n")
    sb = sb_cmds.get_sandbox()
    sb.run()
    CAL = set(summarize(sb.data))
    ECHO = {}
    for p in ('', 'num? ', 'who? '):
        cmds.clear_report()
        cmds.contextualize_report("v = input(%r)\n" % p if p else "v = input()\n")
        sb = sb_cmds.get_sandbox()
        sb.set_input(['zz'])
        sb.run()
        ECHO[p] = sb.raw_output
    cmds.clear_report()
    cmds.contextualize_report("v = input()\n")
    sb = sb_cmds.get_sandbox()
    sb.run()
    DEFAULT = sb.data.get('v')


_REFDIR = None


def _refdir():
    """Read-only copies of the extra files for the plain-CPython reference (one directory, rewritten atomically;
    forked workers leave through os._exit, so nothing may depend on atexit clean-up)."""
    global _REFDIR
    if _REFDIR is None:
        import os
        base = os.path.join(os.path.dirname(os.path.dirname(os.path.abspath(__file__))), '.work', 'c06ref')
        os.makedirs(base, exist_ok=True)
        for name, text in EXTRA_FILES.items():
            tmp = os.path.join(base, '.%s.%d' % (name, os.getpid()))
            with open(tmp, 'w') as f:
                f.write(text)
            os.replace(tmp, os.path.join(base, name))
        _REFDIR = base
    return _REFDIR


def plain(code, inputs):
    import os
    import sys
    inputs = list(inputs)
    out = io.StringIO()
    d = _refdir()
    real_open = open

    def ref_open(name, *a, **k):
        if name in EXTRA_FILES:
            return real_open(os.path.join(d, name), *a, **k)
        return real_open(name, *a, **k)

    def inp(prompt=''):
        out.write(ECHO[prompt])
        return inputs.pop(0) if inputs else DEFAULT
    env = {'__name__': '__main__', 'input': inp, 'open': ref_open}
    outcome = ('ok', None)
    sys.path.insert(0, d)
    sys.modules.pop('helper', None)
    sys.dont_write_bytecode = True
    try:
        comp = compile(code, 'answer.py', 'exec')
        with contextlib.redirect_stdout(out):
            exec(comp, env)
    except BaseException as e:   # noqa
        tb = traceback.extract_tb(e.__traceback__)
        line = [fr.lineno for fr in tb if fr.filename == 'answer.py']
        outcome = (type(e).__name__, line[-1] if line else None)
    finally:
        sys.path.remove(d)
        sys.modules.pop('helper', None)
    env.pop('input', None)
    env.pop('open', None)
    return out.getvalue(), env, outcome, inputs


def summarize(ns):
    res = {}
    for k, v in ns.items():
        if k.startswith('__'):
            continue
        if isinstance(v, (int, float, str, bool, type(None), list, tuple, dict, set)):
            res[k] = ('data', repr(v))
        elif hasattr(v, 'read') and hasattr(v, 'close'):
            res[k] = ('obj', 'file object')     # pedal serves submission files from memory (StringIO): same interface
        else:
            res[k] = ('obj', type(v).__name__)
    return res


def make_programs(max_len, pool, STM=STM):
    def body(ctx):
        n = ctx.choose(max_len, 'n') + 1
        idx = [ctx.choose(len(STM) if i == 0 else min(pool, len(STM)), 's%d' % i) for i in range(n)]
        code = "\n".join(STM[i] for i in idx) + "\n"
        queue = QUEUES[ctx.choose(len(QUEUES), 'inputs')]
        reads = code.count('input(')
        if not reads and queue:
            return      # the queue cannot matter
        ctx.observe(code + repr(queue))
        ctx.set_sample({'program': code, 'inputs': queue})
        pout, pns, poutcome, pleft = plain(code, queue)
        cmds.clear_report()
        from pedal.core.submission import Submission
        files = dict(EXTRA_FILES)
        files['answer.py'] = code
        conf = ctx.choose(5, 'sandbox-configuration')      # plain | threaded | line tracing on (as the environments have it)
        #                                                    | sandbox configured before the submission exists
        #                                                    | second submission attached to the same report
        if conf == 3:
            sb_cmds.get_sandbox().allowed_time = 30
        elif conf == 4:
            other = dict(EXTRA_FILES)
            other['helper.py'] = "print('the other helper')\nHX = 100\ndef hf(a):\n    return -a\n"
            other['answer.py'] = "import helper\n"
            cmds.contextualize_report(Submission(files=other, main_file='answer.py', main_code=other['answer.py']))
            sb_cmds.get_sandbox()
        cmds.contextualize_report(Submission(files=files, main_file='answer.py', main_code=code),
                                  **({'clear': False} if conf in (3, 4) else {}))
        sb = sb_cmds.get_sandbox()
        sb.set_input(list(queue))
        # the sandbox may be configured to run everything under a time limit (as the environments do): same behaviour
        if conf == 1:
            sb.threaded = True
            sb.allowed_time = 20
        elif conf == 2:
            sb.tracer_style = 'native'
        ctx.step('run')
        try:
            sb.run()
        except BaseException as e:   # noqa
            ctx.fail({'symptom': 'run() raised', 'exception': type(e).__name__}, program=code, inputs=queue)
            return
        if pout or reads or poutcome[0] != 'ok' or 'def ' in code or 'class ' in code:
            ctx.mark_nontrivial(code + repr(queue))
        sout = sb.raw_output
        ex = sb.exception
        soutcome = ('ok', None) if ex is None else (
            type(ex).__name__, sb.feedback.location.line if sb.feedback and sb.feedback.location else None)
        case = {'program': code, 'inputs': queue}
        ctx.outcome(poutcome[0])
        if soutcome != poutcome:
            ctx.fail({'symptom': 'different outcome', 'kind': 'class' if soutcome[0] != poutcome[0] else 'line'}, **case,
                     cpython=poutcome, sandbox=soutcome)
            return
        sns = summarize(sb.data)
        pns_s = summarize(pns)
        sns = {k: v for k, v in sns.items() if not (k in CAL and k not in pns_s)}
        if sns != pns_s:
            diff = {k: (pns_s.get(k), sns.get(k)) for k in set(pns_s) | set(sns) if pns_s.get(k) != sns.get(k)}
            ctx.fail({'symptom': 'different student globals'}, **case, difference=diff)
        if sout != pout:
            ctx.fail({'symptom': 'different printed text'}, **case, cpython=pout, sandbox=sout)
        else:
            lines = [l.rstrip() for l in pout.rstrip().split("\n")] if pout else []
            if list(sb.output) != lines:
                ctx.fail({'symptom': 'line list differs from the printed text'}, **case, want=lines, got=list(sb.output))
        if list(sb_cmds.get_input()) != pleft:
            ctx.fail({'symptom': 'different inputs consumed'}, **case, left_cpython=pleft, left_sandbox=list(sb_cmds.get_input()))
    return body


def _same_value(a, b):
    if type(a) is not type(b):
        return False
    if isinstance(a, float) and a != a:
        return b != b
    return repr(a) == repr(b)


def body_calls(ctx):
    fn = FNAMES[ctx.choose(len(FNAMES), 'function')]
    ai = ctx.choose(len(ARGS), 'argument')
    form = ctx.choose(3, 'form')       # positional | keyword | after a previous call in the same sandbox
    arg = ARGS[ai]
    case = {'function': fn, 'argument': repr(arg)[:80], 'form': ['positional', 'keyword', 'second call'][form]}
    ctx.observe(repr((fn, ai, form)))
    ctx.set_sample(case)
    if not isinstance(arg, int) or isinstance(arg, bool):
        ctx.mark_nontrivial(repr((fn, ai, form)))
    ns = {'__name__': '__main__'}
    exec(compile(FUNCS, 'answer.py', 'exec'), ns)
    import copy
    out = io.StringIO()
    try:
        with contextlib.redirect_stdout(out):
            a2 = copy.deepcopy(arg) if not callable(arg) else arg
            expected = ('ok', ns[fn](a2))
    except Exception as e:
        expected = (type(e).__name__, None)
    cmds.clear_report()
    cmds.contextualize_report(FUNCS)
    sb = sb_cmds.get_sandbox()
    sb.run()
    names_before = set(sb.data)
    if form == 2:
        sb_cmds.call('ident', 1)
    ctx.step(('call', fn))
    try:
        a3 = copy.deepcopy(arg) if not callable(arg) else arg
        if form == 1 and fn in ('ident', 'double', 'typename', 'isnan'):
            got = sb_cmds.call(fn, v=a3)
        else:
            got = sb_cmds.call(fn, a3)
    except BaseException as e:   # noqa
        ctx.fail({'symptom': 'call() raised', 'exception': type(e).__name__}, **case)
        return
    raw = unwrap_value(got)
    ctx.outcome(expected[0])
    argclass = 'non-finite float' if (isinstance(arg, float) and (arg != arg or arg in (float('inf'), float('-inf')))) \
        else ('contains non-finite float' if 'inf' in repr(arg) or 'nan' in repr(arg) else
              ('class or builtin object' if callable(arg) else type(arg).__name__))
    if expected[0] == 'ok':
        if isinstance(raw, BaseException):
            ctx.fail({'symptom': 'call() fails although the direct call succeeds', 'argument_class': argclass,
                      'exception': type(raw).__name__}, **case, expected=repr(expected[1])[:80])
        elif not _same_value(raw, expected[1]):
            ctx.fail({'symptom': 'call() returns a different value', 'argument_class': argclass}, **case,
                     expected=repr(expected[1])[:80], got=repr(raw)[:80])
        if fn == 'shout' and not isinstance(raw, BaseException):
            ctxs = sb.get_context()
            text = ctxs[-1].output if ctxs else None
            if text != out.getvalue():
                ctx.fail({'symptom': 'call() output differs'}, **case, want=out.getvalue(), got=text)
    else:
        if not isinstance(raw, BaseException) or type(raw).__name__ != expected[0]:
            ctx.fail({'symptom': 'call() does not fail like the direct call', 'argument_class': argclass,
                      'want': expected[0]}, **case, got=repr(raw)[:80])
    leftovers = {k for k in set(sb.data) - names_before if k != '_'}
    if leftovers:
        ctx.fail({'symptom': 'call() leaves temporaries in the student namespace'}, **case, names=sorted(leftovers))


def bounds(tier):
    return {'statements': len(STM), 'max_statements': 2 if tier == 'quick' else 3,
            'later_statement_pool': len(STM) if tier == 'quick' else 30, 'input_queues': QUEUES,
            'functions': len(FNAMES), 'arguments': len(ARGS), 'call_forms': 3}


def phases(tier):
    ph = [Phase('programs', make_programs(2, len(STM)), setup=_setup, chunk=200, describe='all programs of <=2 statements x input queues'),
          Phase('language', make_programs(2, len(LANG), LANG), setup=_setup, chunk=200,
                describe='all programs of <=2 constructs over the language-semantics alphabet (%d constructs)' % len(LANG)),
          Phase('calls', body_calls, setup=_setup, chunk=100, describe='student function x argument x call form')]
    if tier == 'thorough':
        ph.append(Phase('language-3', make_programs(3, 16, LANG), setup=_setup, chunk=200,
                        describe='programs of 3 language constructs (2nd/3rd from the first 16)'))
        ph.append(Phase('programs-3', make_programs(3, 30), setup=_setup, chunk=200,
                        describe='programs of 3 statements (2nd/3rd from the first 30) x input queues'))
    return ph
