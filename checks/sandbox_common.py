"""Shared pieces for the sandbox checks (C04, C05, C06, C14): global-state vector,
termination modes, entry points, and the sys.monitoring fault injector (driver D)."""
import sys
import time
import traceback

REAL_STDOUT = sys.stdout
REAL_SLEEP = time.sleep


def lazy():
    global cmds, sb_cmds, MAIN_REPORT, Submission
    import importlib
    cmds = importlib.import_module('pedal.core.commands')
    sb_cmds = importlib.import_module('pedal.sandbox.commands')
    from pedal.core.report import MAIN_REPORT
    from pedal.core.submission import Submission
    # make sure lazily imported helpers are loaded before any snapshot is taken
    import pedal.sandbox.feedbacks, pedal.utilities.exceptions, pedal.sandbox.tracer  # noqa
    import bdb, linecache, tokenize  # noqa


class GlobalState:
    """The process-wide state pedal borrows during an execution."""

    def __init__(self):
        self.stdout = sys.stdout
        self.sleep = time.sleep
        self.trace = sys.gettrace()
        self.modules = dict(sys.modules)

    def diff(self):
        d = []
        if sys.stdout is not self.stdout:
            d.append('sys.stdout')
        if time.sleep is not self.sleep:
            d.append('time.sleep')
        if sys.gettrace() is not self.trace:
            d.append('trace function')
        now = sys.modules
        if now.keys() != self.modules.keys():
            extra = sorted(set(now) - set(self.modules))[:3]
            missing = sorted(set(self.modules) - set(now))[:3]
            d.append('sys.modules keys')
            self.detail = {'extra': extra, 'missing': missing}
        else:
            changed = [k for k in now if now[k] is not self.modules[k]]
            if changed:
                d.append('sys.modules values')
                self.detail = {'rebound': changed[:3]}
        return d

    def force(self):
        sys.stdout = self.stdout
        time.sleep = self.sleep
        sys.settrace(self.trace)
        for k in list(sys.modules):
            if k not in self.modules:
                del sys.modules[k]
        for k, v in self.modules.items():
            sys.modules[k] = v


# ---- termination modes ---------------------------------------------------------------

MODES = {
    'ValueError': "raise ValueError('v')", 'TypeError': "1 + 'a'", 'NameError': "undefined_thing",
    'KeyError': "{}['k']", 'IndexError': "[][1]", 'ZeroDivisionError': "1/0", 'AttributeError': "(1).nope",
    'ImportError': "import nonexistent_mod_xyz", 'OSError': "open('nonexistent_file.txt')",
    'MemoryError': "raise MemoryError()", 'TimeoutError': "raise TimeoutError('t')",
    'StopIteration': "next(iter([]))", 'AssertionError': "assert False, 'm'",
    'ExceptionGroup': "raise ExceptionGroup('g', [ValueError(1)])",
    'Custom': "class Custom(Exception): pass\nraise Custom('c')",
    'CustomArgs': "class CustomArgs(Exception):\n    def __init__(self, a, b): super().__init__(a)\nraise CustomArgs(1, 2)",
    'BadStr': "class BadStr(Exception):\n    def __str__(self): raise RuntimeError('no')\nraise BadStr()",
    'BadRepr': "class BadRepr(Exception):\n    def __repr__(self): raise RuntimeError('no')\nraise BadRepr('x')",
    'NonStrStr': "class NonStrStr(Exception):\n    def __str__(self): return 5\nraise NonStrStr()",
    # exception objects that are falsy (an error carrying an empty list of problems; one that defines __bool__)
    'FalsyLen': "class Problems(Exception):\n    def __init__(self, items):\n        super().__init__(items)\n        self.items = items\n    def __len__(self):\n        return len(self.items)\nraise Problems([])",
    'FalsyBool': "class Quiet(Exception):\n    def __bool__(self):\n        return False\nraise Quiet('q')",
    # exception classes that resist being handled: no new attributes, no attribute access at all, a class without a name
    'FrozenSetattr': "class Frozen(Exception):\n    def __setattr__(self, k, v):\n        raise AttributeError('frozen')\nraise Frozen('x')",
    'Slots': "class Slotted(Exception):\n    __slots__ = ()\nraise Slotted('x')",
    'EqRaises': "class NoEq(Exception):\n    def __eq__(self, o):\n        raise RuntimeError('eq')\n    __hash__ = None\nraise NoEq('x')",
    'ArgsProp': "class NoArgs(Exception):\n    @property\n    def args(self):\n        raise RuntimeError('args')\nraise NoArgs('x')",
    'HostileGetattr': "class Closed(Exception):\n    def __getattribute__(self, k):\n        raise RuntimeError('no ' + k)\nraise Closed('x')",
    'HostileMetaName': "class Meta(type):\n    @property\n    def __name__(cls):\n        raise RuntimeError('name')\nclass Nameless(Exception, metaclass=Meta):\n    pass\nraise Nameless('x')",
    # the failure comes after the program has consumed queued input (the instructor queued numbers)
    'InputThenFail': "v = input('n? ')\nw = int(v) + 1\nraise ValueError('after reading ' + v)",
    'Empty': "raise Exception()", 'NonStrArg': "raise Exception(5, [1])",
    'Chained': "try:\n    1/0\nexcept ZeroDivisionError as e:\n    raise ValueError('c') from e",
    'BareRaise': "raise", 'RaiseInt': "raise 5",
    'exit()': "exit()", 'quit()': "quit()", 'sys.exit': "import sys\nsys.exit()",
    'sys.exit msg': "import sys\nsys.exit('bye')", 'SystemExit': "raise SystemExit(2)",
    'Recursion': "def rec(): return rec()\nrec()",
    'compile()': "compile('1', 'f', 'eval')", 'eval()': "eval('1')", 'exec()': "exec('x=1')",
    'globals()': "globals()", 'open py': "open('answer.py')", 'open w': "open('out.txt', 'w')",
    'import pedal': "import pedal", 'from pedal': "from pedal.core import report",
    'Syntax': "x = (", 'Indent': "  x = 1\n y = 2", 'Tab': "if 1:\n\tx = 1\n        y = 2", 'NUL': "x = 1\x00",
    'UntermStr': "x = 'abc",
    'InFunc': "def inner():\n    return 1/0\ndef outer():\n    return inner()\nouter()",
    'InMethod': "class K:\n    def m(self): raise ValueError('m')\nK().m()",
    'InGen': "def g():\n    yield 1\n    raise ValueError('g')\nlist(g())",
    'InComp': "[1/0 for _ in range(1)]",
    'AfterPrint': "print('before')\nx = 1\nraise KeyError('late')",
    # the student closes the stream pedal captures
    'CloseStdout': "import sys\nprint('x')\nsys.stdout.close()\nraise ValueError('after close')",
    # compile() failing with something other than a SyntaxError
    'CompileRecursion': "x = " + "+".join(["1"] * 6000),
    'Surrogate': "s = '\udc80'",
    # the exception travels through the student's own cleanup code
    'Finally': "log = []\ndef avg(v):\n    try:\n        return sum(v) / len(v)\n    finally:\n        log.append('a')\n        log.append('b')\navg([])",
    'Reraise': "def parse(t):\n    try:\n        n = int(t)\n    except ValueError:\n        print('bad', t)\n        raise\n    return n\nparse('twelve')",
    'WithBlock': "class M:\n    def __enter__(self): return self\n    def __exit__(self, *a):\n        x = 1\n        return False\nwith M():\n    y = 1\n    1/0\n    z = 2",
}
# every common exception class raised bare (no arguments) and as an instance without arguments
for _name in ('KeyError', 'IndexError', 'ValueError', 'TypeError', 'NameError', 'AttributeError', 'ZeroDivisionError',
              'RuntimeError', 'StopIteration', 'AssertionError', 'OSError', 'ImportError', 'LookupError', 'ArithmeticError',
              'NotImplementedError', 'FileNotFoundError', 'EOFError', 'UnicodeError', 'OverflowError', 'ModuleNotFoundError',
              'IndentationError', 'SyntaxError', 'RecursionError', 'PermissionError'):
    MODES['Bare:' + _name] = "x = 1\nraise %s" % _name
    MODES['NoArgs:' + _name] = "raise %s()" % _name
# failures deep in the call stack (deeper than any display limit for traceback frames)
MODES['DeepChain'] = "\n".join("def f%d():\n    return f%d()" % (i, i + 1) for i in range(10)) + \
    "\ndef f10():\n    y = 2\n    return [][y]\nf0()"
MODES['DeepRecursionBase'] = "def cd(n):\n    if n == 0:\n        return 1 / 0\n    return cd(n - 1)\ncd(12)"
# the same failure at every call depth of a geometric ladder (no display or extraction limit may move the location)
DEPTHS = (1, 2, 4, 8, 16, 32, 64, 96, 98, 99, 100, 101, 128, 200, 256, 400, 512, 700)
for _d in DEPTHS:
    MODES['Depth:%d' % _d] = "def total(v, i):\n    if i == %d:\n        return v[i + 1]\n    return v[i] + total(v, i + 1)\ntotal([1] * %d, 0)" % (_d, _d + 1)
# every spelling of opening a file for writing (positional / keyword, binary, update, exclusive creation)
for _m in ("'w'", "'a'", "'x'", "'r+'", "'rb+'", "'w+b'", "'xb'", "'at'", "mode='w'", "mode='x'", "mode='r+'"):
    MODES['open:' + _m] = "fh = open('made_by_student.txt', %s)\nfh.close()" % _m
COMPILE_FAIL = ('Syntax', 'Indent', 'Tab', 'NUL', 'UntermStr', 'CompileRecursion', 'Surrogate')
SYSTEM_EXIT = ('exit()', 'quit()', 'sys.exit', 'sys.exit msg', 'SystemExit')
BASE_MODES = {
    'normal': "x = 1\nprint('fine')",
    'KeyboardInterrupt': "raise KeyboardInterrupt()",
    'GeneratorExit': "raise GeneratorExit()",
    'UserBase': "class UserBase(BaseException): pass\nraise UserBase('u')",
}

ENTRIES = ['run', 'run-code', 'call', 'evaluate', 'import']


def build_files(code, entry):
    """Submission files for executing `code` through `entry`."""
    if entry in ('call', 'evaluate'):
        main = "def target():\n" + "\n".join("    " + l for l in code.split("\n")) + "\n    return 1\n"
    elif entry == 'import':
        main = "import helper\n"
    else:
        main = code + "\n"
    files = {'answer.py': main}
    if entry == 'import':
        files['helper.py'] = code + "\n"
    return main, files


def contextualize(main, files):
    cmds.clear_report()
    cmds.contextualize_report(Submission(files=files, main_file='answer.py', main_code=main))
    return sb_cmds.get_sandbox()


def perform(entry, main):
    if entry == 'run' or entry == 'import':
        return sb_cmds.run()
    if entry == 'run-code':
        return sb_cmds.run(main, filename='answer.py')
    if entry == 'call':
        return sb_cmds.call('target')
    return sb_cmds.evaluate('target()')


def cls_name(obj):
    """the name of obj's class, also when the class (or its metaclass) makes `__name__` unreadable"""
    return type.__dict__['__name__'].__get__(type(obj))


def reference_outcome(code, filename='answer.py'):
    """What plain CPython does with this source: (exception class name or None, student line or None)."""
    saved = sys.stdout
    import io
    sys.stdout = io.StringIO()
    try:
        try:
            exec(compile(code, filename, 'exec'), {'__name__': '__main__', 'input': lambda prompt='': '6'})
        finally:
            sys.stdout = saved
    except BaseException as e:   # noqa
        # (a student's exception class may refuse every attribute access: only its type and the interpreter's own
        # record of the traceback are touched)
        e_tb = sys.exc_info()[2]
        if issubclass(type(e), SyntaxError) and e_tb is not None and \
                not [f for f in traceback.extract_tb(e_tb) if f.filename == filename]:
            return cls_name(e), e.lineno
        tb = traceback.extract_tb(e_tb)
        # "raised on a student line": the innermost frame belongs to the student's file
        return cls_name(e), (tb[-1].lineno if tb and tb[-1].filename == filename else None)
    return None, None


# ---- driver D: fault injection through sys.monitoring ---------------------------------

class InjectedFault(Exception):
    """pedal itself fails at this point."""


class FaultInjector:
    """While the dynamic extent of an anchor function is active, every entry of a function
    defined under the repository is a choice point 'inject a fault here?' (cost 1)."""
    TOOL = 4

    def __init__(self, anchors, repo_prefix, entry_sites=()):
        self.anchors = set(anchors)
        self.entry_sites = set(entry_sites)      # functions whose own entry is a fault site wherever it happens
        self.prefix = repo_prefix
        self.ctx = None
        self.depth = 0
        self.sites = 0
        self.installed = False

    def install(self):
        mon = sys.monitoring
        if self.installed:
            return
        try:
            mon.use_tool_id(self.TOOL, 'verif-faults')
        except ValueError:
            pass
        mon.register_callback(self.TOOL, mon.events.PY_START, self._start)
        mon.register_callback(self.TOOL, mon.events.PY_RETURN, self._leave)
        mon.register_callback(self.TOOL, mon.events.PY_UNWIND, self._unwind)
        self.installed = True

    def arm(self, ctx):
        mon = sys.monitoring
        self.ctx = ctx
        self.depth = 0
        self.sites = 0
        mon.set_events(self.TOOL, mon.events.PY_START | mon.events.PY_RETURN | mon.events.PY_UNWIND)
        mon.restart_events()

    def disarm(self):
        sys.monitoring.set_events(self.TOOL, 0)
        self.ctx = None
        self.depth = 0

    def _start(self, code, offset):
        if not code.co_filename.startswith(self.prefix):
            return sys.monitoring.DISABLE
        ctx = self.ctx
        if ctx is None:
            return
        if code.co_name in self.anchors:
            self.depth += 1
            if self.depth == 1:
                return   # the anchor's own entry is not a fault point
        if self.depth > 0 or code.co_name in self.entry_sites:
            self.sites += 1
            tag = 'fault@' + code.co_name
            if ctx.choose(2, tag, costs=(0, 1)):
                ctx.step(('inject fault', code.co_name))
                raise InjectedFault('injected at entry of %s' % code.co_name)

    def _unwind(self, code, offset, arg):
        # PY_UNWIND is not a local event: it must not return DISABLE
        if code.co_name in self.anchors and self.depth > 0 and code.co_filename.startswith(self.prefix):
            self.depth -= 1

    def _leave(self, code, offset, arg):
        if not code.co_filename.startswith(self.prefix):
            return sys.monitoring.DISABLE
        if code.co_name in self.anchors and self.depth > 0:
            self.depth -= 1
