"""C17 -- sections split a submission losslessly and report whole-file line numbers.

Driver A x B: every file of <=N lines over a line alphabet (clean / NameError / syntax
error / blank / marker / near-marker / form-feed line), independent or cumulative mode,
default or custom separator pattern; per section verify+TIFA+run, next_section up to two
past the end, stop or resolve, optionally a second separation pass.
"""
import ast
import itertools
import re
from mc.explore import Phase

PROPERTY = 'C17'
RULE = ('a case is (file, mode, pattern, tool order, ending, second pass) executed on the real source/tifa/sandbox '
        'tools; non-trivial = the file has at least one section marker and at least one diagnostic-producing line '
        'after the first marker; distinct by canonical (file, mode, pattern, order, ending)')
ASSUMPTIONS = ['each diagnostic line carries a unique token (u<k> / x<k>) naming its 0-based line index, so the expected '
               'whole-file line is known without pedal', 'syntax errors: expected line = CPython lineno for the section '
               'text + number of newline characters before the chunk', 'chunk boundaries are recomputed with re.finditer '
               'over the same pattern, independently of pedal.source.sections']
EXPLANATION = 'bounded-exhaustive files x operation sequences on the real tools; oracle = token/line bookkeeping + CPython'

KINDS = ['clean', 'name', 'syntax', 'blank', 'marker', 'near', 'ff', 'lib']
DEFAULT_PAT = r'^(##### Part .+)$'
CUSTOM_PAT = r'^(#%% .*\n)'
PATS = [('default', DEFAULT_PAT, '##### Part %d'), ('custom', CUSTOM_PAT, '#%%%% %d')]


def mk(kinds, marker):
    lines = []
    for i, k in enumerate(kinds):
        if k == 'clean':
            lines.append("a%d = %d" % (i, i))
        elif k == 'name':
            lines.append("print(u%d)" % i)
        elif k == 'syntax':
            lines.append("x%d = (" % i)
        elif k == 'blank':
            lines.append("")
        elif k == 'marker':
            lines.append(marker % i)
        elif k == 'near':
            lines.append("#### Part %d" % i)
        elif k == 'lib':
            lines.append("open('u%d.txt')" % i)
        elif k == 'ff':
            lines.append("f%d = 1 \x0c+ 1" % i)
        elif k == 'deeplib':
            # a failure raised many library frames below the student's line (pure-Python JSON encoder walking a nested list)
            lines.append("import json; json.dumps([[[[[[[type('u%d', (), {})()]]]]]]], indent=1)" % i)
        elif k == 'func':
            # a function whose failure only happens when instructor code calls it (the failing frame is a line of the
            # section although the code the sandbox was asked to run is the instructor's call)
            lines.append("def g%d(): print(u%d)" % (i, i))
        elif k == 'same':
            lines.append("print(zz)")            # the same text wherever it stands: two sections can be identical
        elif k == 'samesyn':
            lines.append("q = (")
    return "\n".join(lines) + "\n"


def _setup():
    global cmds, MAIN_REPORT, verify, sections, tifa_analysis, sb_cmds, simple
    import importlib
    cmds = importlib.import_module('pedal.core.commands')
    sb_cmds = importlib.import_module('pedal.sandbox.commands')
    from pedal.core.report import MAIN_REPORT
    from pedal.source import verify
    import pedal.source.sections as sections
    from pedal.tifa import tifa_analysis
    from pedal.resolvers import simple


def spans(text, pat):
    out, start = [], 0
    for m in re.finditer(pat, text, flags=re.M):
        out.append((start, m.start()))
        start = m.end()
    out.append((start, len(text)))
    return out


TOOLS = ('cait', 'verify', 'tifa', 'run')


def one_pass(ctx, src, independent, pat, order, ending, case, tag, entry='separate', stop_in=None):
    orig = src.split("\n")
    sp = spans(src, pat)
    nsec = len(sp) - 1
    if entry == 'separate':
        ctx.step(('separate_into_sections', independent))
        sections.separate_into_sections(pattern=pat, independent=independent)
    else:
        # the other documented way in: set_source(code, sections=<True or a pattern>, independent=...)
        from pedal.source import set_source
        ctx.step(('set_source', 'sections', independent))
        set_source(src, sections=True if pat == DEFAULT_PAT else pat, independent=independent)
    secs = MAIN_REPORT['source']['sections']
    if ''.join(secs) != src:
        ctx.fail({'symptom': 'sections do not concatenate to the original', 'pass': tag}, case=case, sections=secs)
        return
    if len(secs) != 2 * nsec + 1:
        ctx.fail({'symptom': 'file not split at the given pattern', 'entry': entry,
                  'pattern': 'default' if pat == DEFAULT_PAT else 'custom'}, case=case, sections=len(secs), markers=nsec)
        return
    def tools_and_lines(code, offset, k, n0, where):
        """run verify/tifa/run in the given order on the current code and check every reported line"""
        mode_name = 'independent' if independent else 'cumulative'
        ok = None
        for tool in order:
            ctx.step(tool)
            try:
                if tool == 'cait':
                    # an AST-based tool asked for "the program": it must be shown the presented text, whether or not
                    # the section has been verified yet
                    from pedal.cait.cait_api import parse_program
                    shown = parse_program()
                    try:
                        want_tree = ast.dump(ast.parse(code))
                    except SyntaxError:
                        want_tree = None
                    if want_tree is not None and ast.dump(shown.astNode) != want_tree:
                        ctx.fail({'symptom': 'CAIT is shown a tree that is not the presented text', 'where': where,
                                  'mode': mode_name, 'verified_before': ok is not None}, case=case, k=k,
                                 got=ast.unparse(shown.astNode)[:200], want=code[:200])
                elif tool == 'verify':
                    ok = verify()
                elif ok is False:
                    continue          # an instructor script does not analyse or run code that does not parse
                elif tool == 'tifa':
                    analysis = tifa_analysis()
                    # the lines in the analysis handed back (what get_issues() serves) are judged like the attached ones
                    shown = code.split("\n")
                    for lab, iss in analysis.issues.items():
                        for i in iss:
                            nm = str(i.fields.get('name', ''))
                            iln = i.location.line if i.location is not None else None
                            if iln is None:
                                continue
                            if nm == 'zz':
                                allowed = {j + 1 + offset for j, l in enumerate(shown) if l == 'print(zz)'}
                                if iln not in allowed:
                                    ctx.fail({'symptom': 'issue line in the returned analysis is not a line of the section '
                                                         'that was analysed', 'label': lab, 'mode': mode_name, 'where': where},
                                             case=case, k=k, got=iln, allowed=sorted(allowed))
                            elif re.fullmatch(r'[aufx]\d+', nm) and iln != int(nm[1:]) + 1:
                                ctx.fail({'symptom': 'issue line in the returned analysis is not the whole-file line',
                                          'label': lab, 'mode': mode_name, 'where': where}, case=case, k=k, got=iln,
                                         want=int(nm[1:]) + 1)
                else:
                    had = {n: id(v) for n, v in sb_cmds.get_sandbox().data.items()}
                    sb_cmds.run()
                    for fm in re.finditer(r'^def (g\d+)\(', code, re.M):
                        # only a function this very run defined (one left by an earlier run of other text carries that
                        # text's numbering, which no bookkeeping can translate)
                        now = sb_cmds.get_sandbox().data
                        if fm.group(1) in now and had.get(fm.group(1)) != id(now[fm.group(1)]):
                            ctx.step('call ' + fm.group(1))
                            sb_cmds.call(fm.group(1))
            except Exception as e:
                ctx.fail({'symptom': 'tool raised inside a section', 'tool': tool, 'exception': type(e).__name__},
                         case=case, k=k, message=str(e)[:200])
        for f in MAIN_REPORT.feedback[n0:]:
            if f.location is None or f.location.line is None:
                continue
            ln = f.location.line
            if f.category == 'syntax' and f.label in ('syntax_error', 'indentation_error'):
                try:
                    ast.parse(code)
                    exp = None
                except SyntaxError as e2:
                    exp = (e2.lineno or 1) + offset
                if exp != ln:
                    ctx.fail({'symptom': 'syntax error line is not the whole-file line', 'pass': tag, 'where': where,
                              'mode': 'independent' if independent else 'cumulative'}, case=case, k=k, got=ln, want=exp)
                continue
            name = f.fields.get('name') if isinstance(f.fields, dict) else None
            if f.category == 'runtime' and isinstance(f.fields.get('exception'), SyntaxError):
                # the tools were run on text that does not parse (run before/without verify): same rule as for
                # the syntax feedback -- CPython's line for the presented text, in whole-file numbering
                try:
                    ast.parse(code)
                    exp = None
                except SyntaxError as e2:
                    exp = (e2.lineno or 1) + offset
                if exp is not None and exp != ln:
                    ctx.fail({'symptom': 'syntax error reported by run() is not on the whole-file line', 'pass': tag,
                              'where': where, 'mode': mode_name}, case=case, k=k, got=ln, want=exp)
                continue
            if f.category == 'runtime' and f.label != 'name_error':
                m = re.search(r"'(u\d+)\.txt'|Object of type (u\d+) is not", str(f.fields.get('exception', '')) + f.message)
                name = (m.group(1) or m.group(2)) if m else None
            if f.label in ('initialization_problem', 'possible_initialization_problem', 'name_error', 'unused_variable') or \
                    (f.category == 'runtime' and name):
                if f.label == 'name_error':
                    m = re.search(r"name '([a-z]\d+)'", str(f.fields.get('exception', '')) + f.message)
                    name = m.group(1) if m else None
                if str(name) == 'zz':
                    # identical lines: the reported line must be one of the `print(zz)` lines of the text the tools
                    # were shown, in whole-file numbering
                    shown = code.split("\n")
                    allowed = {i + 1 + offset for i, l in enumerate(shown) if l == 'print(zz)'}
                    if ln not in allowed:
                        ctx.fail({'symptom': 'reported line is not a line of the section that was analysed',
                                  'label': f.label, 'category': f.category, 'mode': mode_name, 'where': where},
                                 case=case, k=k, got=ln, allowed=sorted(allowed))
                    continue
                if not name or not re.fullmatch(r'[aufx]\d+', str(name)):
                    continue
                want = int(str(name)[1:]) + 1
                if ln != want:
                    ctx.fail({'symptom': 'reported line is not the whole-file line', 'label': f.label,
                              'category': f.category, 'mode': 'independent' if independent else 'cumulative',
                              'pass': tag, 'where': where}, case=case, k=k, got=ln, want=want)
                if f.category == 'runtime':
                    for mline in re.findall(r"Line (\d+) of file", f.message):
                        if int(mline) != want:
                            ctx.fail({'symptom': 'traceback line is not the whole-file line', 'pass': tag, 'where': where,
                                      'mode': 'independent' if independent else 'cumulative'},
                                     case=case, k=k, got=int(mline), want=want)

    # how far the script walks before it ends: past the end (default), inside the last section, inside the prologue
    last_k = nsec + 2 if stop_in is None else (nsec if stop_in == 'last section' else 0)
    for k in range(0, last_k + 1):
        n0 = len(MAIN_REPORT.feedback)
        if k > 0:
            ctx.step('next_section')
            try:
                sections.next_section()
            except Exception as e:
                ctx.fail({'symptom': 'next_section raised', 'exception': type(e).__name__,
                          'past_end': k > nsec}, case=case, k=k, message=str(e)[:200])
                break
            if k > nsec:
                if not any(f.label == 'not_enough_sections' for f in MAIN_REPORT.feedback[n0:]):
                    ctx.fail({'symptom': 'no not_enough_sections feedback past the end'}, case=case, k=k)
                elif k == nsec + 1 and MAIN_REPORT.submission.main_code == src:
                    # no section is active any more: tools now see the whole file and must number it as such
                    tools_and_lines(src, 0, k, len(MAIN_REPORT.feedback), 'past the end')
                continue
        code = MAIN_REPORT.submission.main_code
        a, b = sp[k]
        expect = src[a:b] if (independent or k == 0) else src[:b]
        if code != expect:
            ctx.fail({'symptom': 'section text is not the k-th chunk', 'mode': 'independent' if independent else 'cumulative',
                      'pass': tag, 'entry': entry, 'pattern': 'default' if pat == DEFAULT_PAT else 'custom'},
                     case=case, k=k, got=code, want=expect)
            break
        offset = src[:a].count("\n") if independent else 0
        tools_and_lines(code, offset, k, n0, 'section')
    ctx.step(ending)
    try:
        if ending == 'stop':
            sections.stop_sections()
        elif ending == 'stop+resolve':
            sections.stop_sections()
            simple.resolve()
        else:
            simple.resolve()
    except Exception as e:
        ctx.fail({'symptom': 'ending raised', 'ending': ending, 'exception': type(e).__name__}, case=case,
                 message=str(e)[:200])
        return
    if MAIN_REPORT.submission.main_code != src:
        ctx.fail({'symptom': 'main code not restored', 'ending': ending}, case=case,
                 got=MAIN_REPORT.submission.main_code)
    elif ending.startswith('stop'):
        tools_and_lines(src, 0, -1, len(MAIN_REPORT.feedback), 'after stop_sections')


def make_body(max_lines, orders, second, KINDS=KINDS, endings_phase=False):
    def body(ctx):
        L = ctx.choose(max_lines, 'lines') + 1
        kinds = [KINDS[ctx.choose(len(KINDS), 'k%d' % i)] for i in range(L)]
        pname, pat, marker = PATS[ctx.choose(len(PATS), 'pattern')]
        independent = not ctx.choose(2, 'cumulative')
        order = orders[ctx.choose(len(orders), 'order')]
        ending = (('stop', 'resolve', 'stop+resolve')[ctx.choose(3, 'ending')] if endings_phase
                  else ('stop', 'resolve')[ctx.choose(2, 'ending')])
        again = ctx.choose(3, 'second-pass') if second else 0     # 0 none, 1 same mode, 2 other mode
        entry = ('separate', 'set_source')[ctx.choose(2, 'entry')] if second else 'separate'
        # (tool-orders phase) the whole file may have been verified before it is separated
        pre_verified = bool(ctx.choose(2, 'verified-before-separating')) if not second else False
        # ... and the report may have been resolved once already (an instructor script that resolves per part)
        pre_resolved = bool(ctx.choose(2, 'resolved-before-separating')) if (endings_phase and ending != 'stop') else False
        stop_in = (None, 'last section', 'prologue')[ctx.choose(3, 'script-ends-in')] if endings_phase else None
        # ... and an earlier grading in this process may have been abandoned inside its sections (a script that crashed)
        abandoned_before = bool(ctx.choose(2, 'abandoned-session-before')) if endings_phase else False
        src = mk(kinds, marker)
        case = {'file': src, 'mode': 'independent' if independent else 'cumulative', 'pattern': pname,
                'order': order, 'ending': ending, 'second_pass': again, 'entry': entry}
        canon = repr(case)
        ctx.observe(canon)
        ctx.set_sample(case)
        if 'marker' in kinds and any(k in ('name', 'syntax', 'same', 'samesyn', 'lib', 'deeplib', 'func') for k in kinds[kinds.index('marker'):]):
            ctx.mark_nontrivial(canon)
        cmds.clear_report()
        if abandoned_before:
            case['abandoned_session_before'] = True
            cmds.contextualize_report("old0 = 0\n##### Part 1\nold2 = 2\n##### Part 2\nold4 = 4\n")
            sections.separate_into_sections()
            sections.next_section()
            cmds.clear_report()          # the next submission starts the documented way
        if entry == 'separate':
            cmds.contextualize_report(src)
            if pre_verified:
                case['verified_before_separating'] = True
                verify()
            if pre_resolved:
                case['resolved_before_separating'] = True
                simple.resolve()
        if stop_in:
            case['script_ends_in'] = stop_in
        one_pass(ctx, src, independent, pat, order, ending, case, 'first', entry, stop_in)
        if again and ending == 'stop' and not ctx.fails:
            mode2 = independent if again == 1 else not independent
            one_pass(ctx, src, mode2, pat, order, 'stop', case, 'second')
        ctx.outcome('%s-%s' % (case['mode'], 'fail' if ctx.fails else 'ok'))
    return body


ENV_KINDS = ['clean', 'name', 'syntax', 'marker']


def body_environment(ctx):
    """The GradeScope environment's own walk (its next_section() moves on, verifies, analyses and runs in one call)
    over a student file that is not called answer.py: every line reported is the line of the whole file."""
    import io, contextlib
    from pedal.environments.gradescope import GradeScopeEnvironment
    L = ctx.choose(4, 'lines') + 1
    kinds = [ENV_KINDS[ctx.choose(len(ENV_KINDS), 'k%d' % i)] for i in range(L)]
    fname = ('student_code.py', 'answer.py')[ctx.choose(2, 'file-name')]
    src = mk(kinds, '##### Part %d')
    case = {'file': src, 'file_name': fname, 'route': 'GradeScope environment'}
    ctx.observe(repr(case))
    ctx.set_sample(case)
    if 'marker' in kinds and any(k in ('name', 'syntax') for k in kinds[kinds.index('marker'):]):
        ctx.mark_nontrivial(repr(case))
    cmds.clear_report()
    sp = spans(src, DEFAULT_PAT)
    try:
        with contextlib.redirect_stdout(io.StringIO()):
            env = GradeScopeEnvironment(main_file=fname, main_code=src, skip_run=False)
            sections.separate_into_sections(independent=True)
            for k in range(1, len(sp)):
                n0 = len(MAIN_REPORT.feedback)
                ctx.step(('env.next_section', k))
                env.next_section()
                code = src[sp[k][0]:sp[k][1]]
                offset = src[:sp[k][0]].count("\n")
                for f in MAIN_REPORT.feedback[n0:]:
                    if f.location is None or f.location.line is None:
                        continue
                    ln = f.location.line
                    if f.category == 'syntax' and f.label in ('syntax_error', 'indentation_error'):
                        try:
                            ast.parse(code)
                            exp = None
                        except SyntaxError as e2:
                            exp = (e2.lineno or 1) + offset
                        if exp != ln:
                            ctx.fail({'symptom': 'syntax error line is not the whole-file line', 'pass': 'environment',
                                      'where': 'section', 'mode': 'independent'}, case=case, k=k, got=ln, want=exp)
                        continue
                    name = f.fields.get('name') if isinstance(f.fields, dict) else None
                    if f.label == 'name_error':
                        m = re.search(r"name '([a-z]\d+)'", str(f.fields.get('exception', '')) + f.message)
                        name = m.group(1) if m else None
                    if name and re.fullmatch(r'[aux]\d+', str(name)) and f.label in (
                            'initialization_problem', 'possible_initialization_problem', 'name_error', 'unused_variable'):
                        if ln != int(str(name)[1:]) + 1:
                            ctx.fail({'symptom': 'reported line is not the whole-file line', 'label': f.label,
                                      'category': f.category, 'mode': 'independent', 'pass': 'environment', 'where': 'section'},
                                     case=case, k=k, got=ln, want=int(str(name)[1:]) + 1)
    except Exception as e:
        ctx.fail({'symptom': 'tool raised inside a section', 'tool': 'environment', 'exception': type(e).__name__}, case=case,
                 message=str(e)[:200])
    ctx.outcome('environment')


def body_own_report(ctx):
    """The same walk on a Report of the caller's own (every call gets report=own) while the global report holds another
    submission: chunks, whole-file lines and the not-enough-sections feedback belong to the own report, the global
    report is not touched."""
    from pedal.core.report import Report
    own_kinds = ['clean', 'name', 'marker', 'syntax']
    L = ctx.choose(3, 'lines') + 1
    kinds = [own_kinds[ctx.choose(len(own_kinds), 'k%d' % i)] for i in range(L)]
    independent = not ctx.choose(2, 'cumulative')
    src = mk(kinds, PATS[0][2])
    case = {'file': src, 'mode': 'independent' if independent else 'cumulative', 'report': 'own'}
    ctx.observe(repr(case))
    ctx.set_sample(case)
    if 'marker' in kinds:
        ctx.mark_nontrivial(repr(case))
    GLOBAL_TEXT = "g0 = 1\nprint(g0)\n"
    cmds.clear_report()
    cmds.contextualize_report(GLOBAL_TEXT)
    mine = Report()
    cmds.contextualize_report(src, report=mine)
    g0 = (len(MAIN_REPORT.feedback), len(MAIN_REPORT.ignored_feedback))
    sp = spans(src, DEFAULT_PAT)
    nsec = len(sp) - 1
    try:
        ctx.step('separate_into_sections(report=own)')
        sections.separate_into_sections(independent=independent, report=mine)
        for k in range(0, nsec + 2):
            n0 = len(mine.feedback)
            if k > 0:
                ctx.step('next_section(report=own)')
                sections.next_section(report=mine)
                if k > nsec:
                    if not any(f.label == 'not_enough_sections' for f in mine.feedback[n0:]):
                        ctx.fail({'symptom': 'no not_enough_sections feedback on the own report past the end'}, case=case)
                    break
            a, b = sp[k]
            expect = src[a:b] if (independent or k == 0) else src[:b]
            if mine.submission.main_code != expect:
                ctx.fail({'symptom': 'section text on the own report is not the k-th chunk', 'mode': case['mode']}, case=case,
                         k=k, got=mine.submission.main_code, want=expect)
                break
            offset = src[:a].count("\n") if independent else 0
            ok = verify(report=mine)
            if ok:
                tifa_analysis(report=mine)
                sb_cmds.run(report=mine)
            for f in mine.feedback[n0:]:
                if f.location is None or f.location.line is None:
                    continue
                name = f.fields.get('name') if isinstance(f.fields, dict) else None
                if f.label == 'name_error':
                    m = re.search(r"name '([a-z]\d+)'", str(f.fields.get('exception', '')) + f.message)
                    name = m.group(1) if m else None
                if f.category == 'syntax' and f.label in ('syntax_error', 'indentation_error'):
                    try:
                        ast.parse(expect)
                        want = None
                    except SyntaxError as e2:
                        want = (e2.lineno or 1) + offset
                elif name and re.fullmatch(r'[aufx]\d+', str(name)):
                    want = int(str(name)[1:]) + 1
                else:
                    continue
                if want is not None and f.location.line != want:
                    ctx.fail({'symptom': 'line reported on the own report is not the whole-file line', 'label': f.label,
                              'mode': case['mode']}, case=case, k=k, got=f.location.line, want=want)
        ctx.step('stop_sections(report=own)')
        if mine['source']['substitutions']:
            sections.stop_sections(report=mine)
        if mine.submission.main_code != src:
            ctx.fail({'symptom': 'main code of the own report not restored'}, case=case)
    except Exception as e:
        ctx.fail({'symptom': 'sections on an own report raised', 'exception': type(e).__name__}, case=case, message=str(e)[:200])
    if (len(MAIN_REPORT.feedback), len(MAIN_REPORT.ignored_feedback)) != g0 or MAIN_REPORT.submission.main_code != GLOBAL_TEXT \
            or MAIN_REPORT.submission.line_offsets:
        ctx.fail({'symptom': 'sections on an own report touched the global report'}, case=case,
                 labels=[f.label for f in MAIN_REPORT.feedback[g0[0]:]][:5], main_code=MAIN_REPORT.submission.main_code,
                 offsets=dict(MAIN_REPORT.submission.line_offsets))
    ctx.outcome('own-report')


def bounds(tier):
    return {'line_kinds': len(KINDS), 'max_lines': 4 if tier == 'quick' else 5, 'patterns': [p[0] for p in PATS],
            'tool_orders': '1 (cait, verify, tifa, run) on <=4 lines + 12 orders on <=3 lines' if tier == 'quick' else 24, 'next_section_past_end': 2, 'second_pass': 'none/same/other mode'}


def phases(tier):
    if tier == 'quick':
        orders = [TOOLS]
        return [Phase('sections', make_body(4, orders, True), setup=_setup, chunk=300,
                      describe='all files of <=4 lines x pattern x mode x ending x second pass'),
                Phase('identical-sections', make_body(5, [TOOLS], True, ['same', 'marker', 'samesyn', 'clean']), setup=_setup, chunk=300,
                      describe='files of <=5 lines whose sections can be textually identical (same failing line in each)'),
                Phase('called-functions', make_body(4, [TOOLS], False, ['clean', 'marker', 'func', 'name']), setup=_setup, chunk=300,
                      describe='files of <=4 lines whose sections define functions that fail when the instructor calls them'),
                Phase('deep-library-failures', make_body(4, [TOOLS], False, ['clean', 'marker', 'deeplib', 'lib']), setup=_setup, chunk=300,
                      describe='files of <=4 lines with failures raised 1 or 12 library frames below the student line'),
                Phase('environment', body_environment, setup=_setup, chunk=50,
                      describe='files of <=4 lines walked by the GradeScope environment (file called answer.py or not)'),
                Phase('own-report', body_own_report, setup=_setup, chunk=300,
                      describe='files of <=3 lines walked on a caller-owned Report (report= on every call); global report untouched'),
                Phase('endings', make_body(3, [TOOLS], False, ['clean', 'name', 'marker'], endings_phase=True), setup=_setup, chunk=300,
                      describe='files of <=3 lines; the script ends (stop/resolve) past the end, inside the last section or in '
                               'the prologue; the report may have been verified and resolved once before it was separated'),
                Phase('tool-orders', make_body(3, [o for o in itertools.permutations(TOOLS) if o.index('cait') == 0 or o[:2] == ('verify', 'cait')], False),
                      setup=_setup, chunk=300,
                      describe='all files of <=3 lines x every order of cait/verify/tifa/run with cait first or second '
                               '(tools on text that was not verified)')]
    orders = list(itertools.permutations(TOOLS))
    return [Phase('sections', make_body(5, [TOOLS], True), setup=_setup, chunk=300,
                  describe='all files of <=5 lines x pattern x mode x ending x second pass'),
            Phase('called-functions', make_body(5, [TOOLS], True, ['clean', 'marker', 'func', 'name', 'blank']), setup=_setup, chunk=300,
                  describe='files of <=5 lines whose sections define functions that fail when the instructor calls them'),
            Phase('tool-orders', make_body(4, orders, False), setup=_setup, chunk=300,
                  describe='all files of <=4 lines x every order of cait/verify/tifa/run')]
