"""C14 -- a time-limit violation yields exactly one timeout report and a usable sandbox.

Driver C: the real two-thread time-out path of pedal under a cooperative scheduler that
owns every switch, the timer and the asynchronous exception (mc/sched.py).  Every
schedule within a pre-emption bound is executed; the oracle is evaluated at the return of
the timed-out call, after a second execution, and at quiescence.
"""
import sys
import time
from mc.explore import Phase, Hang
from mc import sched
from checks import sandbox_common as sc

PROPERTY = 'C14'
RULE = ('a case is one complete schedule (student program, timer position, pre-emptions) of run(threaded=True) followed by a '
        'second execution and a drain of the abandoned thread; non-trivial = the timer fired and the abandoned student '
        'thread took at least one step after it (or was blocked forever); distinct by the canonical observation vector')
ASSUMPTIONS = ['scheduling points = line events of pedal/sandbox/sandbox.py, timeout.py and student code; a switch happens '
               'only between lines; the asynchronous SystemExit is delivered at the student thread\'s next line',
               'virtual time: join(duration) returns after any number k <= K of student steps; wall-clock latency is not decided',
               'student loops end through harness builtins spin()/block() only when an execution is torn down',
               'pass 2 restricts points to lines that syntactically touch shared state (AST scan) - a partial-order reduction '
               'that is only syntactic, hence pass 1 over all lines']
EXPLANATION = ('stateless model checking of the implementation: every interleaving of the grader and the student thread '
               'within the pre-emption bound, with the timer firing at every position, on the real Sandbox/timeout code')

PROGRAMS = {
    'busy': "x = 0\nwhile spin():\n    x = x + 1\n",
    'printing': "while spin():\n    print('tick')\n",
    'swallow': "n = 0\nwhile spin():\n    try:\n        n = n + 1\n    except BaseException:\n        pass\n",
    'swallow_exception': "m = 0\nwhile spin():\n    try:\n        m = m + 1\n    except Exception:\n        pass\n",
    'block': "print('before')\nblock()\nprint('after')\n",
    'slow': "a = 1\nb = a + 1\nprint('done', b)\n",
    # swallows the interruption once and then ends normally - possibly while a later execution is running
    'swallow_once': "try:\n    while spin():\n        pass\nexcept BaseException:\n    pass\nz = 1\n",
    # closes the captured stream and then hangs
    'close_then_spin': "import sys\nprint('x')\nsys.stdout.close()\nwhile spin():\n    pass\n",
    # fails with an exception whose text never finishes computing (student code runs inside pedal's reporting)
    'slow_str': "class Stuck(Exception):\n    def __str__(self):\n        while spin():\n            pass\n        return 'stuck'\nprint('going')\nraise Stuck()\n",
    # ... the same with a built-in exception class carrying a student object (str(ValueError(obj)) calls obj.__str__)
    'slow_str_builtin': "class Slow:\n    def __str__(self):\n        while spin():\n            pass\n        return 'slow'\nprint('going')\nraise ValueError(Slow())\n",
    # ends with its own exception at the last moment
    'slow_error': "a = 1\nprint('hello')\nb = a / 0\n",
}
# a second file of the submission that never finishes, imported by the main file: under a configured time limit the
# import runs in a thread of its own, inside the runner's thread
IMPORT_MAIN = "import helper\nprint('main done')\n"
IMPORT_HELPER = {'import_busy': "n = 0\nwhile spin():\n    n = n + 1\n",
                 'import_printing': "while spin():\n    print('tick')\n",
                 'import_block': "print('before')\nblock()\n",
                 'import_slow_error': "a = 1\nprint('hello')\nb = a / 0\n"}
# ... and the same after another student file that finishes at once was imported first (two timed threads started by
# the runner's thread, the first one long finished when time is up)
IMPORT_MAIN2 = "import first\nimport helper\nprint('main done')\n"
IMPORT_FIRST = "ready = 1\n"
IMPORT_HELPER2 = {'import2_busy': "n = 0\nwhile spin():\n    n = n + 1\n",
                  'import2_printing': "while spin():\n    print('tick')\n",
                  'import2_slow_error': "a = 1\nprint('hello')\nb = a / 0\n"}
SECOND = "print('second')\nprobe_value = 6 * 7\n"
# (exception, runtime feedback) of a normal completion of the terminating students
NORMAL = {'slow': (None, []), 'slow_error': ('ZeroDivisionError', ['zero_division_error']),
          'import_slow_error': ('ZeroDivisionError', ['zero_division_error']),
          'import2_slow_error': ('ZeroDivisionError', ['zero_division_error'])}


def _setup():
    sc.lazy()
    sched.install()
    # an abandoned student thread prints to the process's real stdout once the patches are undone:
    # give the worker a sink (its identity is what the oracle compares)
    import os
    sink = open(os.devnull, 'w')
    sys.stdout = sink
    sc.REAL_STDOUT = sink


def _spin():
    s = sched.CUR
    return s is not None and not s.aborting


def _block():
    s = sched.CUR
    me = sched.NAMES.get(sched.threading.get_ident())
    if s is None or me is None or s.aborting:
        return
    s.block_forever(me)


def _exc_name(sb):
    e = sb.exception
    e = getattr(e, '_actual_value', e)
    return type(e).__name__ if e is not None else None


def _observe(sb, n0):
    fbs = [f for f in sc.MAIN_REPORT.feedback[n0:] if f.category == 'runtime']
    return {'exception': _exc_name(sb), 'runtime_feedback': [f.label for f in fbs],
            'stacks': (len(sb._current_patches), len(sb._current_stdout)),
            'stdout_is_real': sys.stdout is sc.REAL_STDOUT, 'sleep_is_real': time.sleep is sc.REAL_SLEEP,
            'raw_output': sb.raw_output,
            # executions are numbered by position: the number the next one gets is the number of executions recorded
            'context_ids': (sb._next_context_id, len(sb._context))}


def make_body(programs, k_join, filtered, entry='run'):
    names = list(programs)

    def body(ctx):
        pname = names[ctx.choose(len(names), 'program')]
        files = None
        if pname in IMPORT_HELPER:
            prog, files = IMPORT_MAIN, {'answer.py': IMPORT_MAIN, 'helper.py': IMPORT_HELPER[pname]}
        elif pname in IMPORT_HELPER2:
            prog, files = IMPORT_MAIN2, {'answer.py': IMPORT_MAIN2, 'first.py': IMPORT_FIRST, 'helper.py': IMPORT_HELPER2[pname]}
        else:
            prog = PROGRAMS[pname]
        snap = sc.GlobalState()
        if entry.split('-')[0] in ('call', 'evaluate'):
            # the same student code as the body of a function, timed out inside call('go', threaded=True)
            prog = "def go():\n" + "".join("    " + l + "\n" for l in prog.split("\n") if l)
        sb = sc.contextualize(prog, files or {'answer.py': prog})
        sb.allowed_time = 5
        sb.data['spin'] = _spin
        sb.data['block'] = _block
        if files:
            # the imported file has a namespace of its own: the harness builtins reach it as builtins
            sb.mock_function('spin', _spin)
            sb.mock_function('block', _block)
        if entry.split('-')[0] in ('call', 'evaluate'):
            sb.run()
        if entry.endswith('-configured'):
            # the time limit is not asked for call by call: the sandbox is configured to run threaded (as the
            # environments do) and the module-level commands are used without a threaded= argument
            sb.threaded = True
        n0 = len(sc.MAIN_REPORT.feedback)
        S = sched.begin(ctx, k_join, filtered)
        err = err2 = None
        first = second = final = None
        try:
            try:
                if entry.endswith('-configured'):
                    ctx.step(entry)
                    if entry.startswith('run'):
                        sc.sb_cmds.run()
                    elif entry.startswith('call'):
                        sc.sb_cmds.call('go')
                    else:
                        sc.sb_cmds.evaluate('go()')
                elif entry == 'call':
                    ctx.step("call('go', threaded=True)")
                    sb.call('go', threaded=True)
                elif entry == 'evaluate':
                    ctx.step("evaluate('go()', threaded=True)")
                    sb.evaluate('go()', threaded=True)
                else:
                    ctx.step('run(threaded=True)')
                    sb.run(threaded=True)
                first = _observe(sb, n0)
                first['never_interrupted'] = S.never_interrupted()
            except BaseException as e:    # noqa
                if isinstance(e, Hang):
                    raise
                err = e
            if err is None:
                n1 = len(sb._context)
                try:
                    ctx.step('second execution')
                    sb.run(SECOND, threaded=False)
                    second = _observe(sb, n0)
                    second['probe_value'] = sb.data.get('probe_value')
                    second['own_output'] = sb._context[-1].output if len(sb._context) > n1 else None
                except BaseException as e:    # noqa
                    if isinstance(e, Hang):
                        raise
                    err2 = e
            try:
                S.drain()
            except BaseException as e:    # noqa
                if isinstance(e, Hang):
                    raise
                err2 = err2 or e
            final = _observe(sb, n0)
            final['probe_value'] = sb.data.get('probe_value')
        finally:
            if S.horizon_hit:
                ctx.no_expand = True
            sched.end()
            leaked = snap.diff()
            snap.force()
        case = {'program': pname, 'entry': entry, 'schedule': [l for l in S.log][-25:], 'timer_fired': S.timer_fired}
        ctx.set_sample({'program': pname, 'log': [str(l) for l in S.log][:12]})
        who_last = None
        for l in S.log:
            if l[0] == 'finished':
                who_last = l[1]
        sig_base = {'program_kind': 'stuck in its exception text' if pname.startswith('slow_str') else 'imports a second file' if pname.startswith('import') else 'terminating' if pname.startswith('slow') else ('blocking' if pname == 'block' else 'looping')}
        canon = repr((pname, first, second, final, leaked, repr(err)[:60], repr(err2)[:60]))
        ctx.observe(canon)
        after_timer_steps = any(l[0] in ('deliver', 'blocks forever', 'drain horizon reached') for l in S.log)
        if S.timer_fired and after_timer_steps:
            ctx.mark_nontrivial(canon)
        ctx.outcome(repr((first and first['exception'], first and tuple(first['runtime_feedback']),
                          second and second.get('own_output'), final and final['exception'],
                          final and tuple(final['runtime_feedback']), final and final['stacks'], tuple(leaked),
                          type(err).__name__ if err else None, type(err2).__name__ if err2 else None)))

        def fail(symptom, **kw):
            d = dict(sig_base)
            d['symptom'] = symptom
            ctx.fail(d, **case, **kw)

        if isinstance(err, sched.StepHorizon) or isinstance(err2, sched.StepHorizon):
            fail('the call does not return: grader thread still running at the step horizon',
                 which='timed-out call' if err is not None else 'later execution')
            return
        if err is not None:
            fail('exception escapes the timed-out call', exception=type(err).__name__, message=str(err)[:120])
            if leaked:
                # whichever way the call ends -- raising included -- what it patched must be restored
                fail('patch state not clean after the timed-out call raised', leaked=leaked, exception=type(err).__name__)
            return
        if err2 is not None:
            fail('exception escapes a later execution', exception=type(err2).__name__, message=str(err2)[:120])
            return
        timed_out = first['exception'] == 'TimeoutError'
        if S.timer_fired and not timed_out:
            # legitimate only if the student finished before it could be interrupted (terminating program)
            normal = NORMAL.get(pname)
            if normal is None or (first['exception'], first['runtime_feedback']) != normal:
                fail('timer fired but the sandbox exception is not a timeout', got=first['exception'],
                     feedback=first['runtime_feedback'])
                return
        if not S.timer_fired and S.inner_timer_fired and timed_out:
            pass       # the time limit of the imported file's own thread ended it: also a time-out, judged below
        elif not S.timer_fired:
            if (first['exception'], first['runtime_feedback']) != NORMAL.get(pname, (None, [])):
                fail('no time-out happened but the result is not that of a normal completion', got=first['exception'],
                     feedback=first['runtime_feedback'])
            timed_out = False
        if timed_out:
            if first['runtime_feedback'] != ['timeout_error']:
                fail('not exactly one timeout feedback at return', feedback=first['runtime_feedback'])
            if first['stacks'] != (0, 0) or not first['stdout_is_real'] or not first['sleep_is_real']:
                fail('patch state not clean when the timed-out call returns', stacks=first['stacks'],
                     stdout_is_real=first['stdout_is_real'])
            if first['never_interrupted']:
                # a thread of the abandoned execution nobody has told to stop keeps running next to later executions
                # (it is only stopped when -- if -- whoever waits for it wakes up): the schedules in which it then
                # alters a later execution need one more pre-emption; the state that makes them possible is judged here
                fail('a thread started by the timed-out execution was never told to stop when the call returned',
                     threads=first['never_interrupted'])
        # the second execution must look like one in a sandbox that never timed out
        if second['own_output'] != 'second\n' or second['probe_value'] != 42 or second['exception'] is not None:
            fail('later execution altered', own_output=second['own_output'], probe=second['probe_value'],
                 exception=second['exception'])
        if second['runtime_feedback'] != first['runtime_feedback']:
            fail('runtime feedback count changed during the later execution', before=first['runtime_feedback'],
                 after=second['runtime_feedback'])
        if second['stacks'] != (0, 0) or not second['stdout_is_real']:
            fail('patch state not clean after the later execution', stacks=second['stacks'], stdout_is_real=second['stdout_is_real'])
        # quiescence: the abandoned thread must not have changed anything
        if final['exception'] != second['exception']:
            fail('abandoned thread overwrote the sandbox exception', got=final['exception'])
        if final['runtime_feedback'] != second['runtime_feedback']:
            fail('abandoned thread attached another runtime feedback', got=final['runtime_feedback'])
        if final['raw_output'] != second['raw_output']:
            fail('abandoned thread changed the captured output', before=second['raw_output'][-60:], after=final['raw_output'][-60:])
        if final['stacks'] != (0, 0) or leaked:
            fail('patch state not clean at quiescence', stacks=final['stacks'], leaked=leaked, detail=getattr(snap, 'detail', None))
        if final['probe_value'] != 42:
            fail('abandoned thread changed later results', probe=final['probe_value'])
        for when, ob in (('when the timed-out call returns', first), ('after the later execution', second), ('at quiescence', final)):
            if ob['context_ids'][0] != ob['context_ids'][1]:
                # results carry the number of their execution; assertions look the execution up by that number
                fail('execution numbering no longer matches the recorded executions', when=when,
                     next_id=ob['context_ids'][0], recorded=ob['context_ids'][1])
                break
        if S.drain_exhausted and pname not in ('swallow',):
            # a student that does not swallow BaseException must be stopped by the interruption; a thread
            # that keeps running keeps mutating the namespace later executions use
            fail('interrupted student thread is still running at the drain horizon')
    return body


def free_running(ctx):
    """Sanity pass with real threads and a real timer (not evidence of absence)."""
    pname = ('busy_real', 'printing_real')[ctx.choose(2, 'program')]
    prog = {'busy_real': "x = 0\nwhile True:\n    x = x + 1\n", 'printing_real': "i = 0\nwhile True:\n    i += 1\n"}[pname]
    import threading as _th
    threads_before = set(_th.enumerate())
    snap = sc.GlobalState()
    sb = sc.contextualize(prog, {'answer.py': prog})
    sb.allowed_time = 0.05
    n0 = len(sc.MAIN_REPORT.feedback)
    t0 = time.time()
    err = None
    try:
        sb.run(threaded=True)
        first = _observe(sb, n0)
        sb.run(SECOND, threaded=False)
        own = sb._context[-1].output
        time.sleep(0.15)
        final = _observe(sb, n0)
    except BaseException as e:   # noqa
        err = e
    leaked = snap.diff()
    snap.force()
    ctx.observe(pname)
    ctx.set_sample({'program': pname, 'free_running': True})
    if err is not None:
        ctx.fail({'symptom': 'free-running: exception escapes', 'exception': type(err).__name__}, message=str(err)[:100])
        return
    ctx.info['free_running_latency_ms'] = max(ctx.info['free_running_latency_ms'], int((time.time() - t0) * 1000))
    if first['exception'] != 'TimeoutError' or final['exception'] is not None and final['exception'] != first['exception'] and False:
        ctx.fail({'symptom': 'free-running: no timeout reported'}, got=first['exception'])
    import threading
    import pedal.sandbox.timeout as tomod
    def mine():
        # only the threads this execution started: earlier (scheduler-driven) executions of the same worker may have
        # left parked threads behind, which say nothing about this run
        return [t.name for t in threading.enumerate()
                if isinstance(t, tomod.InterruptableThread) and t not in threads_before and t.is_alive()]
    still = mine()
    if still:
        # the real interrupt (ctypes call into the interpreter) is outside the scheduler's model: this pass is the only
        # place where it runs for real
        time.sleep(0.5)
        still = mine()
        if still:
            ctx.fail({'symptom': 'free-running: the interrupted student thread is still alive 0.65 s after the time-out'},
                     threads=still)
    if final['runtime_feedback'] != ['timeout_error'] or own != 'second\n' or leaked or final['stacks'] != (0, 0):
        ctx.fail({'symptom': 'free-running: timeout not clean'}, feedback=final['runtime_feedback'], own=own, leaked=leaked,
                 stacks=final['stacks'])


def _sub(*names):
    return {k: PROGRAMS[k] for k in names}


def bounds(tier):
    if tier == 'quick':
        return {'all_lines': 'pre-emption bound 1, program busy, K=44 student steps before the timer',
                'shared_state_lines_b1': 'pre-emption bound 1, all 8 programs, K=64',
                'shared_state_lines_b2': 'pre-emption bound 2, programs slow_error and block, K=18',
                'drain_horizon_steps': 400}
    return {'all_lines': 'pre-emption bound 1, all 5 programs, K=90',
            'shared_state_lines_b2': 'pre-emption bound 2, all 5 programs, K=40',
            'shared_state_lines_b3': 'pre-emption bound 3, programs slow and block, K=16 (capped at 600k executions, cap reported)',
            'drain_horizon_steps': 400}


def phases(tier):
    fr = Phase('free-running', free_running, setup=_setup, serial=True,
               describe='real threads, real 50 ms timer: sanity only')
    if tier == 'quick':
        return [
            Phase('shared-state-lines-b1', make_body(PROGRAMS, 64, True), bound=1, setup=_setup, chunk=150, horizon_s=30, max_execs=600000,
                  describe='points = lines touching shared state; all programs; pre-emption bound 1'),
            Phase('all-lines-b1', make_body(_sub('busy'), 44, False), bound=1, setup=_setup, chunk=150, horizon_s=30, max_execs=600000,
                  describe='every line of sandbox.py/timeout.py/student code is a point; busy loop; pre-emption bound 1'),
            Phase('shared-state-lines-b2', make_body(_sub('slow_error', 'block'), 18, True), bound=2, setup=_setup, chunk=150,
                  horizon_s=30, max_execs=600000, describe='points = lines touching shared state; terminating and blocking student; bound 2'),
            Phase('configured-run-b0', make_body(PROGRAMS, 40, True, 'run-configured'), bound=0, setup=_setup, chunk=150, horizon_s=30,
                  describe='sandbox.threaded = True and the module-level run(); every timer position, no pre-emption'),
            Phase('configured-call-b0', make_body(PROGRAMS, 40, True, 'call-configured'), bound=0, setup=_setup, chunk=150, horizon_s=30,
                  describe="sandbox.threaded = True and the module-level call('go'); every timer position, no pre-emption"),
            Phase('configured-evaluate-b0', make_body(PROGRAMS, 40, True, 'evaluate-configured'), bound=0, setup=_setup, chunk=150,
                  horizon_s=30, describe="sandbox.threaded = True and the module-level evaluate('go()'); every timer position"),
            Phase('configured-import-b0', make_body(IMPORT_HELPER, 90, True, 'run-configured'), bound=0, setup=_setup, chunk=150,
                  horizon_s=30, describe='sandbox.threaded = True; the main file imports a second student file that never '
                                         'finishes / fails late (a timed thread inside the timed thread): every position of '
                                         'the outer and of the inner timer, no pre-emption'),
            Phase('configured-two-imports-b0', make_body(IMPORT_HELPER2, 150, True, 'run-configured'), bound=0, setup=_setup, chunk=150,
                  horizon_s=30, describe='sandbox.threaded = True; the main file imports a student file that finishes at '
                                         'once and then one that never finishes / fails late: every timer position, no pre-emption'),
            Phase('call-entry-b1', make_body(_sub('busy', 'printing', 'block', 'slow_error', 'swallow_once'), 40, True, 'call'),
                  bound=1, setup=_setup, chunk=150, horizon_s=30, max_execs=600000,
                  describe="the time-out inside call('go', threaded=True); points = lines touching shared state; bound 1"),
            fr]
    return [
        Phase('all-lines-b1', make_body(PROGRAMS, 90, False), bound=1, setup=_setup, chunk=150, horizon_s=30,
              describe='every line is a point; all programs; pre-emption bound 1'),
        Phase('shared-state-lines-b2', make_body(PROGRAMS, 40, True), bound=2, setup=_setup, chunk=150, horizon_s=30,
              describe='points = lines touching shared state; all programs; pre-emption bound 2'),
        Phase('shared-state-lines-b3', make_body(_sub('slow', 'block'), 16, True), bound=3, setup=_setup, chunk=150,
              horizon_s=30, max_execs=600000, describe='terminating and blocking student; pre-emption bound 3 (capped)'),
        Phase('configured-entries-b1', make_body(PROGRAMS, 40, True, 'call-configured'), bound=1, setup=_setup, chunk=150,
              horizon_s=30, describe="sandbox.threaded = True and the module-level call('go'); pre-emption bound 1"),
        Phase('configured-import-b1', make_body(IMPORT_HELPER, 90, True, 'run-configured'), bound=1, setup=_setup, chunk=150,
              horizon_s=30, max_execs=1500000,
              describe='nested timed import (a timed thread inside the timed thread); pre-emption bound 1 (capped, cap reported)'),
        Phase('configured-two-imports-b1', make_body(IMPORT_HELPER2, 150, True, 'run-configured'), bound=1, setup=_setup, chunk=150,
              horizon_s=30, max_execs=1000000,
              describe='two nested timed imports, the first finished; pre-emption bound 1 (capped, cap reported)'),
        Phase('evaluate-entry-b1', make_body(PROGRAMS, 40, True, 'evaluate'), bound=1, setup=_setup, chunk=150, horizon_s=30,
              describe="the time-out inside evaluate('go()', threaded=True); all programs; pre-emption bound 1"),
        Phase('call-entry-b2', make_body(PROGRAMS, 40, True, 'call'), bound=2, setup=_setup, chunk=150, horizon_s=30,
              describe="the time-out inside call('go', threaded=True); all programs; pre-emption bound 2"),
        fr]
