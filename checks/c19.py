"""C19 -- TIFA's operator typing and value typing agree with what CPython does at run time.

Driver B: the exhaustive operator x operand-type table, all expression trees up to a
depth over typed variables, and all nested JSON-like values up to a depth.  Oracle:
CPython executing the same expression.
"""
import itertools
from mc.explore import Phase

PROPERTY = 'C19'
RULE = ('a case is one expression over typed variables (table cell or tree) analysed by TIFA and executed by CPython, '
        'or one nested value typed by pedal; non-trivial = CPython raises TypeError for it, or the result type differs '
        'from both operand types, or the value is a container; distinct by expression/value text')
ASSUMPTIONS = ['reference = exec() of the same assignments under CPython; only TypeError is demanded to be reported, '
               'other run-time errors (ZeroDivisionError, ValueError) are skipped and counted',
               'conformance = pedal.types.new_types.is_subtype(get_pedal_type_from_value(result), inferred type)',
               'a spurious incompatible_types report where CPython succeeds is counted as information, not asserted']
EXPLANATION = 'exhaustive operator/type table and bounded expression trees on the real TIFA; oracle = CPython execution'

CORE = {'i': '3', 'f': '2.5', 's': "'ab'", 'l': '[1, 2]', 't': '(1, 2)'}
# second representative per type; chosen so that the outcome depends on the operand *types* only
# (no negative exponents/bases -> float/complex, no element-type dependent list/tuple ordering)
CORE2 = {'i2': '7', 'f2': '0.5', 's2': "'c'", 'l2': "[5]", 't2': "(0, 2.0)"}
EXTRA = {'b': 'True', 'st': '{1, 2}', 'd': "{'k': 1}"}
OPS = ['+', '-', '*', '/', '//', '%', '**', '<<', '>>', '|', '^', '&', '<', '<=', '>', '>=', '==', '!=', 'in', 'not in']
ARITH = OPS[:7]
AUG = OPS[:12]          # operators that have an augmented-assignment form
THEN = [None, "r.append('x')", "r.append(7)", "r.append([9])"]


def _setup():
    global cmds, tifa_analysis, get_pedal_type_from_value, normalize_type, is_subtype, MAIN_REPORT
    import importlib
    cmds = importlib.import_module('pedal.core.commands')
    from pedal.tifa import tifa_analysis
    from pedal.types.normalize import get_pedal_type_from_value, normalize_type
    from pedal.types.new_types import is_subtype
    from pedal.core.report import MAIN_REPORT


def judge_expr(ctx, variables, expr, aug=None, then=None, reassign=None, prior=False):
    """aug=(a, op, b): the operator applied in its augmented-assignment form (r = a; r op= b).
    then: a statement executed on the result afterwards (e.g. r.append('x')) -- the operands must keep their types."""
    pre = "\n".join("%s = %s" % kv for kv in variables.items()) + "\n"
    if reassign:
        # reassign=(name, earlier value): the operand held another value first (the later assignment is what counts)
        pre = "%s = %s\n" % reassign + pre
        expr_note = '%s = %s; ' % reassign
    stmt = "r = %s\n" % expr if aug is None else "r = %s\nr %s= %s\n" % aug
    if aug is not None:
        expr = "r = %s; r %s= %s" % aug
    if then:
        stmt += then + "\n"
        expr += '; ' + then
    code = pre + stmt + "print(r)\n"
    env = {}
    try:
        exec(pre + stmt, env)
        real = ('ok', env['r'])
    except TypeError:
        real = ('TypeError', None)
    except Exception as ex:
        real = (type(ex).__name__, None)
    ctx.observe(expr)
    ctx.set_sample({'expression': expr, 'cpython': real[0] if real[0] != 'ok' else type(real[1]).__name__})
    if real[0] not in ('ok', 'TypeError') or isinstance(real[1], complex):
        ctx.abstain()
        ctx.outcome('other-error')
        return
    cmds.clear_report()
    cmds.contextualize_report(code)
    if prior:
        # the report's analyser has already analysed a program of the same shape (same operator, types and lines)
        ctx.step('tifa_analysis(similar program)')
        try:
            tifa_analysis(code + "# an earlier version\n")
        except Exception:
            pass
    ctx.step('tifa_analysis')
    try:
        t = tifa_analysis()
    except Exception as e:
        ctx.fail({'symptom': 'tifa_analysis raised', 'exception': type(e).__name__}, expression=expr)
        return
    if not t.success:
        ctx.fail({'symptom': 'tifa internal failure', 'error': repr(t.error)[:60]}, expression=expr)
        return
    line = code.count("\n") - 1
    inc = [i for i in t.issues.get('incompatible_types', [])]
    if real[0] == 'TypeError':
        ctx.mark_nontrivial(expr)
        ctx.outcome('TypeError')
        if not inc:
            ctx.fail({'symptom': 'TypeError not reported', 'ops': _ops(expr)}, expression=expr, program=code,
                     shape=_shape(expr, variables))
        return
    if inc:
        ctx.info['spurious_incompatible_types_reports'] += 1
        ctx.outcome('spurious-report')
        return
    ty = t.top_level_variables['r'].type
    try:
        vt = get_pedal_type_from_value(real[1])
        ok = is_subtype(vt, ty)
    except Exception as ex:
        ok = 'EXC ' + repr(ex)[:60]
    ctx.outcome('ok:' + type(real[1]).__name__)
    if type(real[1]).__name__ not in [type(v).__name__ for v in ()]:
        ctx.mark_nontrivial(expr)
    # the operands are still what they were: using them in an operator must not retype them
    for name in variables:
        if name == 'r' or name not in t.top_level_variables or env[name] is env['r']:
            continue          # (r = a; r op= b on a list really is the operand itself under CPython)
        try:
            okv = is_subtype(get_pedal_type_from_value(env[name]), t.top_level_variables[name].type)
        except Exception as ex:
            okv = 'EXC ' + repr(ex)[:60]
        if okv is not True:
            ctx.fail({'symptom': 'an operand variable no longer conforms to its inferred type', 'ops': _ops(expr),
                      'operand_type': type(env[name]).__name__}, expression=expr, operand=name,
                     inferred=str(t.top_level_variables[name].type)[:40], value=repr(env[name])[:40], conformance=repr(okv))
    if ok is not True and not then:
        # (after a follow-up statement only the operands are judged: a list that received a value of another type
        # has no single element type to conform to)
        ctx.fail({'symptom': 'result value does not conform to the inferred type', 'ops': _ops(expr),
                  'result_type': type(real[1]).__name__, 'inferred': str(ty)[:24]}, expression=expr, shape=_shape(expr, variables),
                 conformance=repr(ok), value=repr(real[1])[:60])


def _ops(expr):
    return ' '.join(sorted({tok for tok in expr.replace('(', ' ').replace(')', ' ').split() if tok in OPS or tok == 'not'}))


def _shape(expr, variables):
    """the expression with variable names replaced by their Python type names"""
    import re
    env = {}
    exec("\n".join("%s = %s" % kv for kv in variables.items()), env)
    return re.sub(r'[a-z]+\d?', lambda m: type(env[m.group(0)]).__name__ if m.group(0) in env else m.group(0), expr)


# operands written as signed literals (the sign is a unary operator applied to a literal): operators whose result
# type depends on the operand's *sign* (power, shifts) are left out, as for the second representatives above
SIGNED = {'ni': '-3', 'nf': '-2.5', 'pf': '+2.5', 'nn': '-(-3)', 'i': '3', 'f': '2.5', 's': "'ab'", 'l': '[1, 2]', 't': '(1, 2)'}
SIGNED_OPS = [o for o in OPS if o not in ('**', '<<', '>>')]


def make_table(variables, OPS=OPS):
    names = list(variables)

    def body(ctx):
        op = OPS[ctx.choose(len(OPS), 'op')]
        a = names[ctx.choose(len(names), 'left')]
        b = names[ctx.choose(len(names), 'right')]
        aug = op in AUG and bool(ctx.choose(2, 'augmented-form'))
        prior = bool(ctx.choose(2, 'analysed-after-a-similar-program'))
        judge_expr(ctx, variables, "%s %s %s" % (a, op, b), aug=(a, op, b) if aug else None, prior=prior)
    return body


def make_trees(variables, inner_ops, outer_ops):
    names = list(variables)

    def body(ctx):
        form = ctx.choose(2, 'form')            # (a op b) op c   |   a op (b op c)
        o1 = inner_ops[ctx.choose(len(inner_ops), 'inner-op')]
        o2 = outer_ops[ctx.choose(len(outer_ops), 'outer-op')]
        a = names[ctx.choose(len(names), 'a')]
        b = names[ctx.choose(len(names), 'b')]
        c = names[ctx.choose(len(names), 'c')]
        expr = "(%s %s %s) %s %s" % (a, o1, b, o2, c) if form == 0 else "%s %s (%s %s %s)" % (c, o2, a, o1, b)
        judge_expr(ctx, variables, expr)
    return body


ROTATED = {'i': "'x'", 'f': '[1]', 's': '3', 'l': '(1,)', 't': '2.5'}      # the same names bound to other types


def body_imported(ctx):
    """The operands live in another file of the submission (where each name first held a value of another type and
    was rebound), next to a second student file that uses the same names for other types."""
    from pedal.core.submission import Submission
    names = list(CORE)
    op = OPS[ctx.choose(len(OPS), 'op')]
    a = names[ctx.choose(len(names), 'left')]
    b = names[ctx.choose(len(names), 'right')]
    form = ('from prices import', 'import prices, then import units')[ctx.choose(2, 'import-form')]
    prices = "".join("%s = %s\n%s = %s\n" % (n, ROTATED[n], n, CORE[n]) for n in names)
    units = "".join("%s = %s\n" % (n, ROTATED[n]) for n in names)
    if form.startswith('from'):
        main = "from prices import %s\nr = %s %s %s\nprint(r)\n" % (', '.join(sorted({a, b})), a, op, b)
    else:
        main = "import prices\nimport units\nr = prices.%s %s prices.%s\nprint(r)\n" % (a, op, b)
    expr = main.split("\n")[-3]
    env = {}
    exec("\n".join("%s = %s" % kv for kv in CORE.items()), env)
    try:
        real = ('ok', eval("%s %s %s" % (a, op, b), env))
    except TypeError:
        real = ('TypeError', None)
    except Exception as ex:
        real = (type(ex).__name__, None)
    ctx.observe(main)
    ctx.set_sample({'main': main, 'cpython': real[0] if real[0] != 'ok' else type(real[1]).__name__})
    if real[0] not in ('ok', 'TypeError') or isinstance(real[1], complex):
        ctx.abstain()
        return
    cmds.clear_report()
    cmds.contextualize_report(Submission(files={'answer.py': main, 'prices.py': prices, 'units.py': units},
                                         main_file='answer.py', main_code=main))
    ctx.step('tifa_analysis')
    try:
        t = tifa_analysis()
    except Exception as e:
        ctx.fail({'symptom': 'tifa_analysis raised', 'exception': type(e).__name__}, expression=expr)
        return
    if not t.success:
        ctx.fail({'symptom': 'tifa internal failure', 'error': repr(t.error)[:60]}, expression=expr, program=main)
        return
    ctx.mark_nontrivial(main)
    inc = [i for i in t.issues.get('incompatible_types', [])]
    if real[0] == 'TypeError':
        ctx.outcome('TypeError')
        if not inc:
            ctx.fail({'symptom': 'TypeError not reported', 'ops': op, 'operands': 'imported from another student file'},
                     expression=expr, program=main)
        return
    if inc:
        ctx.outcome('spurious-report')
        ctx.info['spurious_incompatible_types_reports'] += 1
        return
    try:
        ok = is_subtype(get_pedal_type_from_value(real[1]), t.top_level_variables['r'].type)
    except Exception as ex:
        ok = 'EXC ' + repr(ex)[:60]
    ctx.outcome('ok:' + type(real[1]).__name__)
    if ok is not True:
        ctx.fail({'symptom': 'result value does not conform to the inferred type', 'ops': op,
                  'result_type': type(real[1]).__name__, 'operands': 'imported from another student file'},
                 expression=expr, program=main, inferred=str(t.top_level_variables['r'].type)[:30])


ATOMS = ['1', '2.5', 'True', "'s'", 'None']


def _values(depth):
    if depth == 0:
        return list(ATOMS)
    sub = _values(depth - 1)
    out = list(sub)
    for x in sub:
        out += ['[%s]' % x, '(%s,)' % x, "{'k': %s}" % x]
        if not any(c in x for c in '[{'):
            out += ['{%s}' % x] if x != 'None' or True else []
    for x, y in itertools.product(sub[:8], repeat=2):
        out += ['[%s, %s]' % (x, y), '(%s, %s)' % (x, y), "{'a': %s, 'b': %s}" % (x, y)]
        # keys that are not (all) string literals: None, a tuple, numbers of two kinds
        out += ["{None: %s, 'a': %s}" % (x, y), "{(1, 2): %s, 'k': %s}" % (x, y), "{1: %s, 2.5: %s}" % (x, y)]
    out += ['[]', '()', '{}', 'set()']
    seen, res = set(), []
    for v in out:
        if v not in seen:
            seen.add(v)
            res.append(v)
    return res


def make_values(depth):
    vals = _values(depth)

    def body(ctx):
        text = vals[ctx.choose(len(vals), 'value')]
        try:
            v = eval(text)
        except TypeError:
            ctx.abstain()      # unhashable set element etc.
            return
        ctx.observe(text)
        ctx.set_sample(text)
        if any(c in text for c in '[({'):
            ctx.mark_nontrivial(text)
        ctx.step('get_pedal_type_from_value')
        try:
            t = get_pedal_type_from_value(v)
        except Exception as e:
            ctx.fail({'symptom': 'get_pedal_type_from_value raised', 'exception': type(e).__name__}, value=text)
            return
        try:
            stable = [is_subtype(t, t) for _ in range(3)]
        except Exception as e:
            ctx.fail({'symptom': 'is_subtype raised', 'exception': type(e).__name__}, value=text)
            return
        if stable != [True, True, True]:
            ctx.fail({'symptom': 'pedal type of a value is not a stable subtype of itself', 'python_type': type(v).__name__},
                     value=text, queries=stable)
        try:
            nt = normalize_type(type(v)).as_type()
            ok = is_subtype(t, nt)
        except Exception as e:
            ctx.fail({'symptom': 'normalize_type raised', 'exception': type(e).__name__, 'python_type': type(v).__name__}, value=text)
            return
        ctx.outcome(type(v).__name__)
        if ok is not True:
            ctx.fail({'symptom': 'value type does not conform to the normalised Python type', 'python_type': type(v).__name__},
                     value=text, pedal_type=str(t)[:60], normalised=str(nt)[:60])
        # a second, independent typing of the same value must conform to the first
        t2 = get_pedal_type_from_value(eval(text))
        if not (is_subtype(t2, t) and is_subtype(t, t2)):
            ctx.fail({'symptom': 'two typings of equal values do not conform to each other', 'python_type': type(v).__name__}, value=text)
    return body


ELEMS = {'li': '[1, 2]', 'lf': '[2.5]', 'ls': "['x']", 'le': '[]', 'll': '[[1]]', 'lls': "[['x']]",
         'ti': '(1, 2)', 'ts': "('y', 2.0)", 'i': '3', 'z': '0', 'neg': '-1', 's': "'ab'"}


def body_elements(ctx):
    """containers with different element types, empty containers, zero/negative repetition counts"""
    names = list(ELEMS)
    op = ('+', '*')[ctx.choose(2, 'op')]
    a = names[ctx.choose(len(names), 'left')]
    b = names[ctx.choose(len(names), 'right')]
    aug = bool(ctx.choose(2, 'augmented-form'))
    then = THEN[ctx.choose(len(THEN), 'then')]
    if then is not None:
        # only where the follow-up statement runs under CPython
        env = {}
        try:
            exec("\n".join("%s = %s" % kv for kv in ELEMS.items()) + "\nr = %s %s %s\n%s\n" % (a, op, b, then), env)
        except Exception:
            ctx.abstain()
            return
    judge_expr(ctx, ELEMS, "%s %s %s" % (a, op, b), aug=(a, op, b) if aug else None, then=then)


def body_reassigned(ctx):
    """the left operand was assigned another value (any of the element alphabet) before the one it holds now"""
    names = list(ELEMS)
    op = ('+', '*', '==')[ctx.choose(3, 'op')]      # (ordering of containers depends on the element values: out of scope)
    a = names[ctx.choose(len(names), 'left')]
    b = names[ctx.choose(len(names), 'right')]
    first = names[ctx.choose(len(names), 'earlier-value-of-left')]
    side = ctx.choose(2, 'which-operand-was-reassigned')
    target = a if side == 0 else b
    judge_expr(ctx, ELEMS, "%s %s %s" % (a, op, b), reassign=(target, ELEMS[first]))


def bounds(tier):
    return {'operators': len(OPS), 'core_variables': len(CORE) * 2, 'extra_variables': len(EXTRA) if tier == 'thorough' else 0,
            'tree_depth': 2, 'value_depth': 2 if tier == 'quick' else 3}


def phases(tier):
    both = dict(CORE)
    both.update(CORE2)
    allv = dict(both)
    allv.update(EXTRA)
    ph = [Phase('table', make_table(both), setup=_setup, chunk=100, describe='operator x ordered pair of core-typed variables (two values per type)'),
          Phase('trees', make_trees(CORE, ARITH, OPS), setup=_setup, chunk=100,
                describe='all depth-2 trees: arithmetic inner operator, any outer operator, 5 core variables'),
          Phase('signed-literals', make_table(SIGNED, SIGNED_OPS), setup=_setup, chunk=100,
                describe='operator x ordered pair of variables among which negative / explicitly signed int and float literals'),
          Phase('imported-operands', body_imported, setup=_setup, chunk=50,
                describe='operator x ordered pair of names imported from another student file (rebound there; a second '
                         'file binds the same names to other types)'),
          Phase('container-elements', body_elements, setup=_setup, chunk=100,
                describe='+ and * over containers with different element types, empty containers, zero/negative counts'),
          Phase('reassigned-operands', body_reassigned, setup=_setup, chunk=100,
                describe='operator on variables one of which held a value of another (element) type before'),
          Phase('values', make_values(2 if tier == 'quick' else 3), setup=_setup, chunk=300, describe='all nested JSON-like values up to the depth bound')]
    if tier == 'thorough':
        ph += [Phase('table-extended', make_table(allv), setup=_setup, chunk=100, describe='table incl. bool, set, dict (information beyond the core types)'),
               Phase('trees-all-ops', make_trees(CORE, OPS, OPS), setup=_setup, chunk=100, describe='depth-2 trees with any inner operator')]
    return ph
