"""C02 -- a submission is marked correct exactly when no shown negative feedback fired.

Driver A; same reference model as C01 turned towards the `correct` flag.
"""
from mc.explore import Phase
from checks import resolver_common as ref
from checks import c01

PROPERTY = 'C02'
RULE = ('a case is a (creation sequence, suppression set, placement) history executed on the real report and '
        'resolved with simple.resolve; non-trivial = at least one eligible feedback declares correct and at least '
        'one feedback (eligible or not) declares incorrect, or vice versa, i.e. the verdict depends on the '
        'eligibility filter; distinct by canonical report')
ASSUMPTIONS = ['reference = conjunction over eligible feedbacks of bool(feedback.correct), from the C02 statement',
               'eligibility predicate shared with C01 (triggered, unmuted, unsuppressed, not a compliment)']
EXPLANATION = 'explicit enumeration of creation/suppression histories; invariant + reference model on every leaf'

NEG_CATS = ('syntax', 'runtime', 'algorithmic', 'instructor', 'specification')

ALPHA = [
    dict(via='set_correct'),
    dict(via='set_correct', muted=True),
    dict(via='compliment'),
    dict(via='give_partial'),
    dict(via='guidance'),
    dict(via='gently'),
    dict(via='gently', muted=True),
    dict(via='gently', activate=False),
    dict(via='explain'),
    dict(via='explain', label='L'),
    dict(category='syntax'),
    dict(category='runtime'),
    dict(category='runtime', muted=True),
    dict(category='algorithmic'),
    dict(category='algorithmic', activate=False),
    dict(category='specification'),
    dict(category='specification', kind='Compliment'),
    dict(category='instructor', correct=True, valence=1),
    dict(category='instructor', correct=False),
    dict(category='instructor', correct=False, muted=True),
    dict(category='instructor', correct=False, activate=False, else_message='fine'),
    dict(category='positive', correct=True, valence=1, label='L'),
    dict(category='complete', correct=True, valence=1, priority='lowest'),
    dict(category='student', correct=None, valence=0),
    dict(category='mistakes', correct=0),
    dict(category='mistakes', correct=1, muted=False),
    dict(category='instructor', valence=1),
    dict(via='give_partial', muted=False),
    dict(category='runtime', message=''),
    dict(category='instructor', message='', title='Blank'),
    dict(category='instructor', label='L', fields={'x': 1, 'y': 2}),
    dict(category='instructor', label='L', fields={'x': 2, 'y': 2}),
    dict(category='instructor', label='L', fields={'x': 1, 'y': 3}),
    dict(category='algorithmic', message_template='{empty}', fields={'empty': ''}, message=None),
    dict(category='instructor', unscored=True),
]

# systematic cross of the attributes the verdict could (wrongly) depend on
SYS = []
for _cat in ('instructor', 'runtime', 'complete'):
    for _cor in (None, True, False):
        for _val in (-1, 0, 1):
            for _st in ({}, {'muted': True}, {'activate': False}, {'unscored': True}, {'score': '+50%'},
                        {'kind': 'Compliment'}, {'kind': 'Instructional'}, {'kind': 'Encouragement'},
                        {'kind': 'Misconception'}, {'kind': 'Mistake'}, {'kind': 'Hint'}, {'kind': 'Constraint'},
                        {'kind': 'Metacognitive'}, {'kind': 'Reinforcement'}, {'kind': 'Result'},
                        {'kind': 'Performance'}, {'kind': 'Meta'}):
                d = dict(category=_cat, correct=_cor, valence=_val)
                d.update(_st)
                SYS.append(d)

SUPSETS = [[], [('runtime', True, None)], [('instructor', True, None)], [(None, 'L', None)],
           [('instructor', 'l', None)], [('algorithmic', True, None), ('syntax', True, None)],
           [('specification', True, None)], [('mistakes', True, None), ('complete', True, None)],
           # suppression by several fields: every one of them has to agree
           [('instructor', 'L', {'x': 1, 'y': 2})], [(None, 'L', {'y': 2, 'x': 1})],
           # the documented aliases of tool names, in the spellings an instructor may type
           [('Analyzer', True, None)], [('PARSER', True, None)], [('analyzer', True, None), ('Verifier', True, None)]]


def _setup():
    c01._setup()
    global simple, cmds, MAIN_REPORT
    simple, cmds, MAIN_REPORT = c01.simple, c01.cmds, c01.MAIN_REPORT


def make_body(max_len, sup_len, ALPHA=ALPHA, own_report=False):
    def body(ctx):
        L = ctx.choose(max_len, 'len') + 1
        seq = [ctx.choose(len(ALPHA), 'fb%d' % k) for k in range(L)]
        supsets = SUPSETS if L <= sup_len else SUPSETS[:3]
        sups = supsets[ctx.choose(len(supsets), 'sups')]
        first = bool(ctx.choose(2, 'sups-first')) if sups else False
        cmds.clear_report()
        mine = None
        resolve = simple.resolve
        if own_report:
            # everything happens on a Report of the caller's own; the global report holds decoys of both verdicts
            from pedal.core.report import Report
            how = ('keyword', 'positional')[ctx.choose(2, 'report-passed-by')]
            decoy = ctx.choose(2, 'decoy')
            if decoy:
                c01.Feedback(label='decoy', category='syntax', message='decoy on the global report', priority='highest')
            mine = Report()
            resolve = (lambda: simple.resolve(report=mine)) if how == 'keyword' else (lambda: simple.resolve(mine))

        def apply_sups():
            for (c, l, f) in sups:
                cmds.suppress(c, l, f, **({'report': mine} if mine is not None else {}))
        if first:
            apply_sups()
            ctx.step(('suppress', sups))
        fbs = []
        for k, di in enumerate(seq):
            ctx.step(('create', ALPHA[di]))
            d = dict(ALPHA[di])
            if mine is not None:
                d['report'] = mine
            fb = c01._mk(d, k)
            if mine is not None and getattr(fb, '_verif_req', None):
                fb._verif_req.pop('report', None)
            fbs.append(fb)
        if sups and not first:
            apply_sups()
            ctx.step(('suppress', sups))
        case = {'feedbacks': [ALPHA[i] for i in seq], 'suppressions': sups, 'suppress_first': first}
        if own_report:
            case['own_report'] = how
            case['decoy_on_global_report'] = bool(decoy)
        canon = repr([(type(f).__name__, f.label, f.category, f.kind, bool(f), f.muted, f.correct) for f in fbs]) + repr(sups)
        ctx.observe(canon)
        ctx.set_sample(case)
        elig = [f for f in fbs if ref.eligible(f, sups)]
        want = all(bool(f.correct) for f in elig)
        verdicts_all = {bool(f.correct) for f in fbs}
        verdicts_elig = {bool(f.correct) for f in elig}
        if len(verdicts_all) == 2 and verdicts_elig != verdicts_all:
            ctx.mark_nontrivial(canon)
        ctx.step('simple.resolve')
        try:
            r = resolve()
        except Exception as e:
            ctx.fail({'symptom': 'resolve raised', 'exception': type(e).__name__}, case=case, message=str(e)[:200])
            return
        js = r.to_json()
        got = (r.correct, r.success, js['correct'], js['success'])
        ctx.outcome((want, len(elig) == 0))
        if not all(g is want for g in got):
            blame = 'reported correct although an eligible feedback is not correct' if want is False else \
                'reported incorrect although every eligible feedback is correct'
            ctx.fail({'symptom': 'wrong correctness', 'direction': blame,
                      'consistent': len(set(got)) == 1}, case=case, expected=want, got=got,
                     eligible=[ref.describe(f) for f in elig])
        # the in-particular clause, as an invariant
        for f in elig:
            if (f.category or '').lower() in NEG_CATS and not f.correct and r.correct:
                ctx.fail({'symptom': 'correct while a visible negative feedback exists',
                          'category': f.category.lower()}, case=case)
    return body


def _verdict(ctx, fbs, sups, case):
    elig = [f for f in fbs if ref.eligible(ref._Req(f), sups)]       # what was asked for (the arm of a pool included)
    want = all(bool(ref._Req(f).correct) for f in elig)
    ctx.step('simple.resolve')
    try:
        r = simple.resolve()
    except Exception as e:
        ctx.fail({'symptom': 'resolve raised', 'exception': type(e).__name__}, case=case, message=str(e)[:200])
        return
    js = r.to_json()
    got = (r.correct, r.success, js['correct'], js['success'])
    ctx.outcome((want, len(elig) == 0))
    if not all(g is want for g in got):
        blame = 'reported correct although an eligible feedback is not correct' if want is False else \
            'reported incorrect although every eligible feedback is correct'
        ctx.fail({'symptom': 'wrong correctness', 'direction': blame, 'consistent': len(set(got)) == 1}, case=case,
                 expected=want, got=got, eligible=[ref.describe(f) for f in elig][:4])


LARGE_FILL = [dict(via='explain', activate=False), dict(via='compliment'), dict(category='instructor', muted=True),
              dict(category='complete', correct=True, valence=1), dict(via='gently', activate=False)]
LARGE_LAST = [dict(category='runtime'), dict(category='specification'), dict(via='set_correct'), dict(via='compliment'),
              dict(category='instructor', muted=True), dict(via='gently')]
LARGE_N = [9, 10, 11, 99, 100, 101, 130]


def body_large(ctx):
    """Many feedbacks that do not decide the verdict, created before (and after) the one that does."""
    fill = LARGE_FILL[ctx.choose(len(LARGE_FILL), 'filler')]
    n = LARGE_N[ctx.choose(len(LARGE_N), 'how-many')]
    last = LARGE_LAST[ctx.choose(len(LARGE_LAST), 'last')]
    tail = ctx.choose(2, 'fillers-after-too')
    cmds.clear_report()
    ctx.step(('create', n, fill, last))
    fbs = [c01._mk(fill, k) for k in range(n)] + [c01._mk(last, n)]
    if tail:
        fbs += [c01._mk(fill, n + 1 + k) for k in range(n)]
    case = {'fillers': '%d x %r' % (n, fill), 'then': last, 'fillers_after_too': bool(tail), 'suppressions': []}
    ctx.observe(repr(case))
    ctx.set_sample(case)
    ctx.mark_nontrivial(repr(case))
    _verdict(ctx, fbs, [], case)


def body_scripts(ctx):
    """A negative feedback whose label is written in another script, suppressed by that label (as spelled or
    capitalised, with or without its category) next to an explicit set_correct()."""
    lab = c01.SUP_LABELS[ctx.choose(len(c01.SUP_LABELS), 'label')]
    form = ctx.choose(5, 'suppression')
    first = bool(ctx.choose(2, 'sups-first'))
    cap = lab[0].upper() + lab[1:]
    sups = [[], [('instructor', lab, None)], [('instructor', cap, None)], [(None, lab, None)], [('Instructor', lab, None)]][form]
    cmds.clear_report()
    if first:
        for (c, l, f) in sups:
            cmds.suppress(c, l, f)
    d1, d2 = dict(category='instructor', label=lab), dict(via='set_correct')
    fbs = [c01._mk(d1, 0), c01._mk(d2, 1)]
    if not first:
        for (c, l, f) in sups:
            cmds.suppress(c, l, f)
    case = {'feedbacks': [d1, d2], 'suppressions': sups, 'suppress_first': first}
    ctx.observe(repr(case))
    ctx.set_sample(case)
    ctx.mark_nontrivial(repr(case))
    _verdict(ctx, fbs, sups, case)


SEC2_ALPHA = [dict(category='instructor'), dict(category='instructor', muted=True), dict(via='set_correct'), dict(via='compliment'),
              dict(category='runtime', activate=False), dict(category='specification', priority='low'),
              dict(category='complete', correct=True, valence=1)]


def body_sectional(ctx):
    """Sectional resolver: every group (parent) of feedbacks gets the verdict its own eligible feedbacks imply,
    in whatever order the groups' feedbacks were created."""
    from pedal.resolvers import sectional
    n = ctx.choose(4, 'n') + 1
    ds = []
    for k in range(n):
        d = dict(SEC2_ALPHA[ctx.choose(len(SEC2_ALPHA), 'fb%d' % k)])
        par = c01.PARENTS[ctx.choose(len(c01.PARENTS), 'parent%d' % k)]
        if par is not None:
            d['parent'] = par
        ds.append(d)
    cmds.clear_report()
    fbs = []
    for k, d in enumerate(ds):
        fb = c01._mk(d, k)
        if getattr(fb, '_verif_req', None):
            fb._verif_req.pop('parent', None)
        fbs.append(fb)
    case = {'feedbacks': ds, 'suppressions': []}
    ctx.observe(repr(ds))
    ctx.set_sample(case)
    parents = [d.get('parent') for d in ds]
    groups = list(dict.fromkeys(parents))
    if len(groups) > 1 and parents != sorted(parents, key=groups.index):
        ctx.mark_nontrivial(repr(ds))
    ctx.step('sectional.resolve')
    try:
        finals = sectional.resolve()
    except Exception as e:
        ctx.fail({'symptom': 'resolve raised', 'exception': type(e).__name__}, case=case, message=str(e)[:200])
        return
    for g in groups:
        mine = [f for f, d in zip(fbs, ds) if d.get('parent') == g and f in MAIN_REPORT.feedback]
        if g not in finals:
            continue
        elig = [f for f in mine if ref.eligible(f, [])]
        want = all(bool(f.correct) for f in elig)
        got = finals[g].correct
        if got is not want:
            ctx.fail({'symptom': 'wrong correctness', 'direction': 'sectional resolver, verdict of a group',
                      'consistent': True}, case=case, group=g, expected=want, got=got)
    ctx.outcome('sectional-%d' % len(groups))


def body_pools(ctx):
    """An A/B arm that mutes or un-mutes every feedback: the verdict follows the attributes the arm leaves."""
    from pedal.core.feedback import Feedback as FB
    d1 = dict(SEC2_ALPHA[ctx.choose(len(SEC2_ALPHA), 'first')])
    d2 = dict(SEC2_ALPHA[ctx.choose(len(SEC2_ALPHA), 'second')])
    arm = (True, False, None)[ctx.choose(3, 'arm-mutes')]
    cmds.clear_report()
    saved = dict(FB._pools)
    try:
        cmds.set_pools(['arm'])
        if arm is not None:
            FB.override_for_pool('arm', muted=arm)
        fbs = [c01._mk(d1, 0), c01._mk(d2, 1)]
        if arm is not None:
            for f in fbs:
                f._verif_req['muted'] = arm
        case = {'feedbacks': [d1, d2], 'pool_mutes': arm, 'suppressions': []}
        ctx.observe(repr(case))
        ctx.set_sample(case)
        ctx.mark_nontrivial(repr(case))
        _verdict(ctx, fbs, [], case)
    finally:
        FB._pools.clear()
        FB._pools.update(saved)
        MAIN_REPORT.set_pools([])


def bounds(tier):
    return {'alphabet': len(ALPHA), 'max_len': 3 if tier == 'quick' else 4, 'suppression_sets': len(SUPSETS),
            'suppression_cross_up_to_len': 2 if tier == 'quick' else 3}


def phases(tier):
    if tier == 'quick':
        b = make_body(3, 2)
    else:
        b = make_body(4, 3)
    return [Phase('correctness', b, setup=_setup, describe='all creation sequences x suppression sets x placement'),
            Phase('own-report', make_body(2, 1, [d for d in ALPHA if d.get('via') in (None, 'gently', 'explain', 'guidance',
                                                                               'compliment', 'set_correct', 'give_partial')],
                                          own_report=True), setup=_setup,
                  describe='sequences <=2 on a caller-owned Report passed by keyword or position, decoy on the global report'),
            Phase('sectional', body_sectional, setup=_setup,
                  describe='sectional resolver: <=4 feedbacks over 7 descriptors x 3 groups in every creation order'),
            Phase('pools', body_pools, setup=_setup, describe='an A/B arm that mutes / un-mutes every feedback'),
            Phase('large-reports', body_large, setup=_setup, chunk=20,
                  describe='9..130 feedbacks that do not decide the verdict around one that does'),
            Phase('labels-in-other-scripts', body_scripts, setup=_setup,
                  describe='suppression by a label with non-ASCII letters (lower/casefold/upper disagree on some)'),
            Phase('systematic-pairs', make_body(2, 2 if tier == 'thorough' else 1, SYS), setup=_setup,
                  describe='all sequences of <=2 over category x correct x valence x state (%d descriptors)' % len(SYS))]
