"""C20 -- each feedback call is recorded once, truthfully, and rendered from its fields.

Driver A: histories over {construct K(kw), set_formatter, K.override(..), clear_report,
contextualize_report, delayed construction + _handle_condition}.
"""
import string
from mc.explore import Phase

PROPERTY = 'C20'
RULE = ('a case is a history of <=N operations (feedback constructions with keyword mixes, formatter changes, class '
        'overrides, clears) on the real MAIN_REPORT; non-trivial = the history contains a construction after a '
        'state-changing operation (formatter/override/clear) or a construction whose condition is false or raises; '
        'distinct by canonical history')
ASSUMPTIONS = ['reference renderer built on string.Formatter().parse + the report formatter method named by the trailing '
               'format-spec word', 'class-attribute snapshot taken at import time is the "original" value',
               'keyword combinations Python rejects before the constructor body runs are filtered (counted in info)']
EXPLANATION = 'explicit enumeration of operation histories on the real Report/Feedback classes; invariants after every op'


def _setup():
    global Feedback, cmds, MAIN_REPORT, Formatter, HtmlFormatter, Location, CLASSES, CASES, OPS, SNAP, MyFmt
    global CondT, CondF, CondX, MsgX, Args, Parent, Child, GrandChild, AllFmt, ConstF
    import importlib
    if globals().get('SNAP'):
        # a later phase in the same worker: put the library's classes back before they are snapshotted again
        # (what an earlier execution left behind was reported there)
        _reset_everything()
    cmds = importlib.import_module('pedal.core.commands')
    from pedal.core.feedback import Feedback
    from pedal.core.report import MAIN_REPORT
    from pedal.core.formatting import Formatter, HtmlFormatter
    from pedal.core.location import Location
    from pedal.tifa.feedbacks import initialization_problem, unused_variable
    from pedal.source.feedbacks import blank_source, not_enough_sections
    from pedal.sandbox.feedbacks import runtime_error, zero_division_error

    class CondT(Feedback):
        category = 'instructor'
        message_template = "T {a} and {b:name}"

        def condition(self):
            return True

    class CondF(Feedback):
        category = 'instructor'
        message_template = "F {a}"
        else_message_template = "else {a:python_expression}"

        def condition(self):
            return False

    class CondX(Feedback):
        category = 'instructor'
        message_template = "X {a}"

        def condition(self):
            raise KeyError("cond")

    class MsgX(Feedback):
        category = 'instructor'
        message_template = "X {missing}"

    class Args(Feedback):
        category = 'instructor'
        message_template = "got {x:python_expression} line {location.line}"

        def __init__(self, x, **kw):
            super().__init__(x, fields={'x': x}, **kw)

        def condition(self, x):
            return x > 0

    class AllFmt(Feedback):
        category = 'instructor'
        message_template = ("{a:exception}|{a:filename}|{a:frame}|{a:inputs}|{a:line}|{a:name}|{a:output}|"
                            "{a:python_code}|{a:python_expression}|{a:python_value}|{b:>6}|{b!r}|{c[0]}|{c[1]:name}")

    class ConstF(Feedback):
        """declares constant fields and is created with keyword fields (no fields= dict)"""
        category = 'instructor'
        constant_fields = {'hint': 'check the spelling'}
        message_template = "{a}: {hint}"

    class Tagged:
        """a field value with underscore and dunder attributes (what a class, a function or a record object has)"""
        _tag = 'T1'
        size = 3

    class Deep(Feedback):
        """the template reaches into its fields: attributes (also underscore/dunder ones) and a two-digit number"""
        category = 'instructor'
        message_template = "{t.__name__} {f.__name__:name} {o._tag} {o.size} line {n.real:line} {n:>4}"

        def __init__(self, **kw):
            f = dict(kw.pop('fields', {}))
            f.update(t=int, f=len, o=Tagged(), n=14)
            super().__init__(fields=f, **kw)

    class Linked(Feedback):
        """uses a format only some formatter *instances* offer"""
        category = 'instructor'
        message_template = "see {a:link} about {b:name}"

    class Parent(Feedback):
        category = 'instructor'
        title = 'ParentTitle'
        message_template = "parent {a}"

    class Child(Parent):
        message_template = "child {a}"

    class GrandChild(Child):
        title = 'GrandTitle'

    class MyFmt(Formatter):
        def name(self, n):
            return "<<%s>>" % (n,)

        def python_expression(self, c):
            return "`%s`" % (c,)

        def link(self, page):
            return "<link:%s>" % (page,)

    g = cmds
    bases = [(Feedback, ()), (CondT, ()), (CondF, ()), (CondX, ()), (MsgX, ()), (Args, (1,)), (Args, (-1,)),
             (g.gently, ('g',)), (g.explain, ('e',)), (g.compliment, ('c',)), (g.give_partial, (.5,)),
             (g.guidance, ('gu',)), (g.set_correct, ()), (g.system_error, ()),
             (initialization_problem, (Location(3), 'v')), (blank_source, ()), (not_enough_sections, (2, 1)),
             (Parent, ()), (Child, ()), (GrandChild, ()), (AllFmt, ()), (ConstF, ()), (Deep, ()), (Linked, ())]
    kws = [dict(), dict(message="explicit"), dict(message_template="tpl {a}"), dict(label='lab', title='Ti'),
           dict(activate=False), dict(delay_condition=True), dict(muted=True, score='5%'), dict(location=7),
           dict(activate=False, else_message='else!')]
    extras = [dict(), dict(a=1, b='nm'), dict(fields={'a': [1, 2], 'b': 'q'}), dict(a='x<1>', b='nm', c=['p', 'q'])]
    CASES = []
    for cls, args in bases:
        for kw in kws:
            for ex in extras:
                CASES.append((cls, args, {**kw, **ex}))
    CLASSES = sorted({c for c, _ in bases} | {runtime_error, zero_division_error}, key=lambda c: c.__name__)
    global ATTRS
    ATTRS = ('title', 'message_template', 'else_message_template', 'muted', 'category', 'priority', 'kind',
             'valence', 'score', 'correct', 'justification')
    SNAP = {c: {a: getattr(c, a) for a in ATTRS} for c in CLASSES}
    globals()['OWN'] = {c: {a: (a in c.__dict__) for a in ATTRS} for c in CLASSES}
    # the curated op alphabet for histories
    pick = [i for i, (c, a, k) in enumerate(CASES)
            if (c in (CondT, CondF, CondX, MsgX, Parent, Child, GrandChild, g.gently, ConstF) and
                (k in (dict(a=1, b='nm'), dict(message="explicit"), dict(delay_condition=True, a=1, b='nm'))))
            or (c in (Args,) and k == {})]
    OPS = [('construct', i) for i in pick]
    OPS += [('formatter', 'html'), ('formatter', 'my'), ('clear',), ('contextualize',),
            ('override', 'Parent', dict(title='OP')), ('override', 'Child', dict(title='OC')),
            ('override', 'Child', dict(message_template='ochild {a}')),
            ('override', 'GrandChild', dict(message_template='ogrand {a}')),
            ('override', 'Parent', dict(title='OP2', message_template='oparent {a}')),
            ('override', 'gently', dict(title='OG')),
            ('override', 'zero_division_error', dict(title='OZ')), ('override', 'runtime_error', dict(title='OR')),
            ('handle_delayed',), ('environment', 'submission'), ('environment', 'main_code')]
    globals()['BYNAME'] = {c.__name__: c for c in CLASSES}


def render(template, fields, fmt):
    out = []
    for lit, fname, spec, conv in string.Formatter().parse(template):
        out.append(lit)
        if fname is None:
            continue
        base, *rest = fname.replace('[', '.').replace(']', '').split('.')
        v = fields[base]
        for r in rest:
            v = getattr(v, r) if not r.isdigit() else v[int(r)]
        val = repr(v) if conv == 'r' else (ascii(v) if conv == 'a' else str(v))
        spec = spec or ''
        cands = [m for m in fmt.available if spec.endswith(m)] if not conv else []
        if cands:
            m = cands[0]
            val = getattr(fmt, m)(v)
            spec = spec[:-len(m)].rstrip(':')
        out.append(format(val, spec))
    return ''.join(out)


_MISSING = object()
SNAP = None


def _expected_trigger(cls, args, kw):
    if cls is CondT:
        return True
    if cls is CondF:
        return False
    if cls is Args:
        return args[0] > 0
    return kw.get('activate', True)


FIELD_SNAPS = []   # (feedback, its fields when created, its message) of this execution
TARGET = None      # a caller-owned Report the constructions of this execution are addressed to (None: the global one)


def do_construct(ctx, idx, hist, delayed):
    """Perform one construction and check the C20 clauses for it."""
    cls, args, kw = CASES[idx]
    kw = {k: (dict(v) if isinstance(v, dict) else v) for k, v in kw.items()}
    tag = {'class': cls.__name__, 'kw': sorted(kw)}
    report = MAIN_REPORT
    if TARGET is not None:
        report = TARGET
        kw['report'] = TARGET
        tag['report'] = 'own'
    fmt = report.format
    n_act, n_ign = len(report.feedback), len(report.ignored_feedback)
    fb = exc = None
    ctx.step(('construct', cls.__name__, args, kw))
    try:
        fb = cls(*args, **kw)
    except Exception as e:
        exc = e
    if isinstance(exc, TypeError) and ('got multiple values for' in str(exc)
                                       or 'unexpected keyword argument' in str(exc)
                                       or 'required positional argument' in str(exc)):
        ctx.info['filtered_python_rejected_call'] += 1
        return
    new_act = report.feedback[n_act:]
    new_ign = report.ignored_feedback[n_ign:]
    if kw.get('delay_condition'):
        if fb is None:
            ctx.fail({'symptom': 'delayed construction raised', **tag}, history=hist, exc=repr(exc))
            return
        if new_act or new_ign:
            ctx.fail({'symptom': 'delayed feedback recorded before its condition ran', **tag}, history=hist)
        if bool(fb):
            ctx.fail({'symptom': 'delayed feedback is truthy', **tag}, history=hist)
        delayed.append((fb, cls, args, kw))
        return
    check_recorded(ctx, cls, args, kw, fb, exc, new_act, new_ign, fmt, hist, tag)


def check_recorded(ctx, cls, args, kw, fb, exc, new_act, new_ign, fmt, hist, tag):
    mine_act = [f for f in new_act if type(f) is cls]
    mine_ign = [f for f in new_ign if type(f) is cls]
    if exc is not None:
        # raising condition / message: recorded untriggered with error status, exception reaches the caller
        will_raise = cls is CondX or (cls in (MsgX,) and 'message' not in kw and kw.get('activate', True)) \
            or isinstance(exc, (KeyError, IndexError, AttributeError))
        if len(mine_act) != 0 or len(mine_ign) != 1:
            ctx.fail({'symptom': 'errored feedback not recorded exactly once as untriggered', **tag}, history=hist,
                     exc=repr(exc)[:120], in_triggered=len(mine_act), in_untriggered=len(mine_ign))
            return
        f = mine_ign[0]
        if cls is not CondX and not isinstance(exc, TypeError):
            # an exception is legitimate only when the condition or the rendering really cannot be evaluated: the
            # reference renders the same template from the same fields
            if _expected_trigger(cls, args, kw):
                tpl = None if 'message' in kw else kw.get('message_template', cls.message_template)
            else:
                tpl = None if 'else_message' in kw else kw.get('else_message_template',
                                                               getattr(cls, 'else_message_template', None))
            try:
                if tpl is not None:
                    render(tpl, f.fields, fmt)
                renders = True
            except Exception:
                renders = False
            if renders:
                ctx.fail({'symptom': 'construction raised although condition and message can be evaluated', **tag,
                          'exception': type(exc).__name__}, history=hist, message=str(exc)[:120], template=tpl)
                return
        if bool(f) or f._status != 'error':
            ctx.fail({'symptom': 'errored feedback is truthy or lacks error status', **tag}, history=hist,
                     status=f._status, truth=bool(f))
        ctx.outcome('error-recorded')
        return
    rep = TARGET if TARGET is not None else MAIN_REPORT
    # what the call supplied is what the object holds -- and keeps holding when later objects are created
    for k2, v2 in list(kw.items()) + list((kw.get('fields') or {}).items()):
        if k2 in ('a', 'b', 'c') and fb.fields.get(k2) != v2:
            ctx.fail({'symptom': 'a field of the feedback is not the value the call supplied', **tag}, history=hist,
                     field=k2, got=repr(fb.fields.get(k2))[:60], want=repr(v2)[:60])
    FIELD_SNAPS.append((fb, {k2: repr(v2) for k2, v2 in fb.fields.items() if k2 in ('a', 'b', 'c', 'hint', 'location')},
                        fb.message if bool(fb) else None, tag))
    for old_fb, snap, old_msg, old_tag in FIELD_SNAPS[:-1]:
        now = {k2: repr(v2) for k2, v2 in old_fb.fields.items() if k2 in ('a', 'b', 'c', 'hint', 'location')}
        if now != snap or (old_msg is not None and old_fb.message != old_msg):
            ctx.fail({'symptom': 'creating a feedback changed an earlier feedback object', 'class': old_tag['class']},
                     history=hist, before=snap, after=now)
    cnt = sum(1 for f in new_act if f is fb) + sum(1 for f in new_ign if f is fb)
    cnt_all = sum(1 for f in rep.feedback if f is fb) + sum(1 for f in rep.ignored_feedback if f is fb)
    if cnt != 1 or cnt_all != 1:
        ctx.fail({'symptom': 'feedback not recorded exactly once', **tag}, history=hist, count=cnt_all)
    if rep is not MAIN_REPORT and any(f is fb for f in MAIN_REPORT.feedback + MAIN_REPORT.ignored_feedback):
        ctx.fail({'symptom': 'feedback addressed to another report was recorded on the global report', **tag}, history=hist)
    if (any(f is fb for f in rep.feedback)) != bool(fb):
        ctx.fail({'symptom': 'list membership disagrees with truth value', **tag}, history=hist)
    trig = _expected_trigger(cls, args, kw)
    if bool(fb) != bool(trig):
        ctx.fail({'symptom': 'wrong trigger', **tag}, history=hist, got=bool(fb), want=trig)
        return
    # would the reference expect an exception that did not come?
    if trig:
        if 'message' in kw:
            exp = kw['message']
        elif cls.__name__ in ('gently', 'explain', 'compliment', 'guidance'):
            exp = args[0]
        else:
            tpl = kw.get('message_template', type(fb).message_template)
            try:
                exp = render(tpl, fb.fields, fmt) if tpl is not None else Feedback.DEFAULT_FEEDBACK_MESSAGE
            except Exception as e:
                ctx.fail({'symptom': 'message template cannot be rendered but no exception reached the caller', **tag},
                         history=hist, template=tpl, fields=repr(fb.fields)[:200])
                return
        if fb.message != exp:
            ctx.fail({'symptom': 'message mismatch', **tag, 'formatter': type(fmt).__name__}, history=hist,
                     got=fb.message, want=exp)
        ctx.outcome('triggered')
    else:
        if 'else_message' in kw and fb.else_message != kw['else_message']:
            ctx.fail({'symptom': 'else_message mismatch', **tag}, history=hist, got=fb.else_message)
        ctx.outcome('untriggered')


def check_restored(ctx, hist, op):
    for c, attrs in SNAP.items():
        for a, v in attrs.items():
            cur = getattr(c, a, _MISSING)
            if cur is _MISSING:
                ctx.fail({'symptom': 'class attribute deleted by the restore', 'class': c.__name__, 'attr': a},
                         history=hist, want=repr(v)[:80], after=op)
            elif cur != v or type(cur) is not type(v):
                ctx.fail({'symptom': 'class attribute not restored after clear', 'class': c.__name__, 'attr': a,
                          'own': a in c.__dict__}, history=hist, got=repr(cur)[:80], want=repr(v)[:80], after=op)
            elif (a in c.__dict__) != OWN[c][a]:
                # same value, but an inherited attribute is now pinned on the subclass (or an own one removed):
                # the class no longer follows its parent
                ctx.fail({'symptom': 'class attribute restored by value but not by ownership', 'class': c.__name__,
                          'attr': a, 'own_now': a in c.__dict__}, history=hist, after=op)


def _reset_everything():
    del FIELD_SNAPS[:]
    _reset_classes()


def _reset_classes():
    """Between executions: the documented way (clear_report) -- and, so that one execution's leak
    cannot blame a later execution, force the snapshot back (a leak is reported where it happens)."""
    cmds.clear_report()
    for c, attrs in sorted(SNAP.items(), key=lambda kv: len(kv[0].__mro__)):      # base classes first
        for a, v in attrs.items():
            if (a in c.__dict__) and not OWN[c][a]:
                delattr(c, a)
            if OWN[c][a] and (a not in c.__dict__ or c.__dict__[a] != v):
                setattr(c, a, v)
            elif getattr(c, a, _MISSING) != v:
                setattr(c, a, v)
        if '_override_backups' in c.__dict__ and c._override_backups:
            c._override_backups.clear()
    if Feedback._override_backups:
        Feedback._override_backups.clear()


def make_single():
    """Every (class, keyword mix) x formatter, one construction each."""
    def body(ctx):
        global TARGET
        fi = ctx.choose(4, 'formatter')
        idx = ctx.choose(len(CASES), 'case')
        own = ctx.choose(2, 'report')          # the global report | a Report of the caller's own passed as report=
        _reset_everything()
        TARGET = None
        if own:
            from pedal.core.report import Report
            TARGET = Report()
        if fi == 1:
            cmds.set_formatter(HtmlFormatter, **({'report': TARGET} if own else {}))
        elif fi == 2:
            cmds.set_formatter(MyFmt, **({'report': TARGET} if own else {}))
        elif fi == 3:
            # an instance of the same class that offers one more format than its siblings (decided per instance)
            rep = TARGET if own else MAIN_REPORT
            inst = MyFmt(rep)
            inst.available = list(MyFmt.available) + ['link']
            rep.set_formatter(inst)
        cls, args, kw = CASES[idx]
        import inspect
        try:
            inspect.signature(cls.__init__).bind(None, *args, **kw)
        except TypeError:
            ctx.info['filtered_by_signature'] += 1
            return
        hist = [('report', 'own' if own else 'global'), ('formatter', ['default', 'html', 'my', 'my-with-link'][fi]),
                ('construct', cls.__name__, repr(args), repr(kw))]
        ctx.observe(repr(hist))
        ctx.set_sample(hist)
        if fi or not _expected_trigger(cls, args, kw):
            ctx.mark_nontrivial(repr(hist))
        delayed = []
        try:
            do_construct(ctx, idx, hist, delayed)
            if delayed:
                run_delayed(ctx, delayed, hist)
        finally:
            TARGET = None
    return body


def run_delayed(ctx, delayed, hist):
    while delayed:
        fb, cls, args, kw = delayed.pop(0)
        rep = TARGET if TARGET is not None else MAIN_REPORT
        fmt = rep.format
        n_act, n_ign = len(rep.feedback), len(rep.ignored_feedback)
        exc = None
        ctx.step(('_handle_condition', cls.__name__))
        try:
            fb._handle_condition()
        except Exception as e:
            exc = e
        kw2 = {k: v for k, v in kw.items() if k != 'delay_condition'}
        check_recorded(ctx, cls, args, kw2, fb if exc is None else None, exc,
                       rep.feedback[n_act:], rep.ignored_feedback[n_ign:], fmt, hist,
                       {'class': cls.__name__, 'kw': sorted(kw), 'delayed': True})


NEW_VALUES = {'title': 'X-title', 'message_template': 'x {a}', 'else_message_template': 'x-else', 'muted': None,
              'category': 'student', 'priority': 'high', 'kind': 'Hint', 'valence': None, 'score': '+5%', 'correct': None,
              'justification': 'x-just'}


def body_override_restore(ctx):
    """Every class x every overridable attribute: override it, end the grading in one of the three documented ways,
    and the class is what it was -- by value and by ownership (own falsy values like muted=False, valence=0 and
    correct=None included)."""
    cls = CLASSES[ctx.choose(len(CLASSES), 'class')]
    attr = ATTRS[ctx.choose(len(ATTRS), 'attribute')]
    ending = ('clear_report', 'contextualize_report', 'Environment(Submission)')[ctx.choose(3, 'ending')]
    twice = bool(ctx.choose(2, 'overridden-twice'))
    _reset_everything()
    cur = getattr(cls, attr)
    new = NEW_VALUES[attr]
    if attr == 'muted':
        new = not cur
    elif attr == 'valence':
        new = 1 if cur != 1 else -1
    elif attr == 'correct':
        new = not cur
    hist = [('override', cls.__name__, attr, repr(new), 'twice' if twice else 'once'), (ending,)]
    ctx.observe(repr(hist))
    ctx.set_sample(hist)
    ctx.mark_nontrivial(repr(hist))
    ctx.step(hist[0])
    try:
        cls.override(**{attr: new})
        if twice:
            cls.override(**{attr: cur})
            cls.override(**{attr: new})
    except Exception as e:
        ctx.fail({'symptom': 'override raised', 'attr': attr, 'exception': type(e).__name__}, history=hist)
        return
    if getattr(cls, attr) != new:
        ctx.fail({'symptom': 'override did not take effect', 'attr': attr}, history=hist)
    ctx.step(ending)
    if ending == 'clear_report':
        cmds.clear_report()
    elif ending == 'contextualize_report':
        cmds.contextualize_report('x = 1\n')
    else:
        from pedal.core.environment import Environment
        from pedal.core.submission import Submission
        Environment(files=Submission(main_file='answer.py', main_code='x = 1\n'))
    check_restored(ctx, hist, ending)
    ctx.outcome('restored' if not ctx.fails else 'not-restored')


def make_histories(max_ops):
    def body(ctx):
        n = ctx.choose(max_ops, 'n') + 1
        ops = [OPS[ctx.choose(len(OPS), 'op%d' % i)] for i in range(n)]
        _reset_everything()
        hist = []
        delayed = []
        changed = False
        for op in ops:
            hist.append(op if op[0] != 'construct' else ('construct', CASES[op[1]][0].__name__, repr(CASES[op[1]][2])))
            if op[0] == 'construct':
                if changed:
                    ctx.mark_nontrivial(repr(hist))
                do_construct(ctx, op[1], list(hist), delayed)
            elif op[0] == 'formatter':
                ctx.step(op)
                cmds.set_formatter(HtmlFormatter if op[1] == 'html' else MyFmt)
                changed = True
            elif op[0] == 'override':
                ctx.step(op)
                BYNAME[op[1]].override(**op[2])
                changed = True
                for a, v in op[2].items():
                    if getattr(BYNAME[op[1]], a) != v:
                        ctx.fail({'symptom': 'override did not take effect'}, history=list(hist))
            elif op[0] == 'clear':
                ctx.step(op)
                cmds.clear_report()
                delayed.clear()
                check_restored(ctx, list(hist), 'clear_report')
                changed = True
            elif op[0] == 'environment':
                # the third way a report is re-contextualised: an environment is set up for the next submission,
                # handed over as a Submission object or as plain code
                from pedal.core.environment import Environment
                from pedal.core.submission import Submission
                ctx.step(op)
                before = {id(f) for f in MAIN_REPORT.feedback} | {id(f) for f in MAIN_REPORT.ignored_feedback}
                if op[1] == 'submission':
                    Environment(files=Submission(main_file='answer.py', main_code='x = 1\n'))
                else:
                    Environment(main_code='x = 1\n')
                delayed.clear()
                left = [f.label for f in MAIN_REPORT.feedback + MAIN_REPORT.ignored_feedback if id(f) in before]
                if left:
                    ctx.fail({'symptom': 'feedback of the previous submission survives the set-up of an environment',
                              'handed_over_as': op[1]}, history=list(hist), labels=left[:5])
                    MAIN_REPORT.clear()
                check_restored(ctx, list(hist), 'Environment(%s)' % op[1])
                changed = True
            elif op[0] == 'contextualize':
                ctx.step(op)
                cmds.contextualize_report('x = 1\n')
                delayed.clear()
                check_restored(ctx, list(hist), 'contextualize_report')
                changed = True
            elif op[0] == 'handle_delayed':
                run_delayed(ctx, delayed, list(hist))
        # closing clear: everything overridden in this history must be restored
        ctx.step(('clear',))
        cmds.clear_report()
        check_restored(ctx, list(hist) + [('clear',)], 'final clear_report')
        ctx.observe(repr(hist))
        ctx.set_sample(hist)
    return body


def bounds(tier):
    return {'single': 'every (20 classes x 9 keyword mixes x 3 extras) x 3 formatters',
            'history_ops': 'curated alphabet (constructions, 2 formatters, clear, contextualize, 8 overrides, '
                           'handle_delayed)', 'max_ops': 3 if tier == 'quick' else 4}


def phases(tier):
    return [
        Phase('single-construction', make_single(), setup=_setup, describe='every class x keyword mix x formatter'),
        Phase('override-restore', body_override_restore, setup=_setup,
              describe='every class x every overridable attribute x 3 endings x overridden once or twice'),
        Phase('histories', make_histories(3 if tier == 'quick' else 4), setup=_setup,
              describe='all operation histories up to the depth bound'),
    ]
