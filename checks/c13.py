"""C13 -- grading a submission is independent of what the process graded before it.

Driver A with one long-lived process per worker on purpose.  Gradings = (instructor
script, submission, environment) run through Bundle.run_ics_bundle; every ordered pair
(and triples over a core set) of gradings is executed in one process and the result of
each position is compared with the same grading run first in a fresh interpreter.
"""
import argparse
import json
import os
import subprocess
import sys
from mc.explore import Phase

PROPERTY = 'C13'
RULE = ('a case is a history of 2 or 3 gradings in one process; non-trivial = an earlier grading mutates process-wide state '
        '(class override, suppression, formatter, mocks, sections, crash, TIFA module types, pools, hooks) or crashes, and a '
        'later grading\'s winning feedback comes from the mechanism it touched (collision rule, DESIGN 2/C13); distinct by '
        'the history')
ASSUMPTIONS = ['reference = the same (script, submission, environment) graded first in a fresh interpreter (one subprocess per '
               'distinct grading, computed once per run before the workers fork)',
               'projection compared: error class, captured output, label, title, message, correct, score',
               'vpl and none environments cannot be constructed through Bundle on this tree and are left out']
EXPLANATION = 'explicit enumeration of grading histories in one live process; differential oracle against fresh interpreters'

SCRIPTS = {
    'assert': "from pedal import *\nassert_equal(call('add', 1, 2), 3)\n",
    'override': ("from pedal import *\nfrom pedal.sandbox.feedbacks import runtime_error, zero_division_error\n"
                 "runtime_error.override(title='XX', muted=True)\nzero_division_error.override(title='ZZ')\n"
                 "assert_equal(call('add', 1, 2), 3)\n"),
    'override_template': ("from pedal import *\nfrom pedal.sandbox.feedbacks import runtime_error\n"
                          "runtime_error.override(message_template='custom {exception_name}')\n"
                          "runtime_error.override(message_template='custom2 {exception_name}')\n"),
    'override_tifa': ("from pedal import *\nfrom pedal.tifa.feedbacks import unused_variable, initialization_problem\n"
                      "unused_variable.override(title='UU', muted=True)\ninitialization_problem.override(title='II')\n"),
    'override_source': ("from pedal import *\nfrom pedal.source.feedbacks import syntax_error, blank_source\n"
                        "syntax_error.override(title='SS')\nblank_source.override(title='BB')\n"),
    'suppress': "from pedal import *\nsuppress('algorithmic')\nsuppress('runtime')\n",
    'suppress_label': "from pedal import *\nsuppress(label='unused_variable')\nsuppress('syntax', 'syntax_error')\n",
    'formatter': "from pedal import *\nfrom pedal.core.formatting import HtmlFormatter\nset_formatter(HtmlFormatter)\nassert_equal(call('add', 1, 2), 3)\n",
    'mock': "from pedal import *\nmock_function('len', lambda x: 42)\nblock_module('math')\nrun()\nassert_equal(call('add', 1, 2), 3)\n",
    'sections': ("from pedal import *\nfrom pedal.source.sections import separate_into_sections\nseparate_into_sections()\n"
                 "next_section()\nverify()\nexplain('in section')\n"),
    'sections_open': ("from pedal import *\nfrom pedal.source.sections import separate_into_sections\n"
                      "separate_into_sections()\nnext_section()\nrun()\n"),
    'sections_prologue': ("from pedal import *\nfrom pedal.source.sections import separate_into_sections\n"
                          "separate_into_sections()\ngently('only the prologue was looked at')\n"),
    'crash': ("from pedal import *\nfrom pedal.core.commands import gently as g\ng.override(title='Crashed Title')\n"
              "suppress('syntax')\nraise ValueError('ics crashed')\n"),
    'group_crash': ("from pedal import *\nfrom pedal.assertions.feedbacks import assert_group\ng = assert_group('grp')\n"
                    "g.__enter__()\nassert_equal(1, 2)\nraise KeyError('inside group')\n"),
    'tifa_mod': "from pedal import *\nfrom pedal.tifa.commands import tifa_provide_module_type\ntifa_provide_module_type('mymod', {})\ngently('plain')\n",
    'hide': "from pedal import *\nhide_correctness()\nset_correct()\n",
    'sandbox_attrs': "from pedal import *\nsb = get_sandbox()\nsb.allowed_time = 1\nsb.tracer_style = 'native'\nsb.full_traceback = True\nrun()\n",
    'pools': "from pedal import *\nset_pools(2)\ngently.override_for_pool('A', title='PoolA')\ngently('pooled')\n",
    'hook': "from pedal import *\nfrom pedal.core.report import MAIN_REPORT\nMAIN_REPORT.add_hook('pedal.report.add_feedback', lambda *a, **k: None)\ngently('hooked')\n",
    'max_score': ("from pedal import *\nfrom pedal.environments.gradescope import set_maximum_score\nset_maximum_score(10)\n"
                  "assert_equal(call('add', 1, 2), 3)\n"),
    'override_base': ("from pedal import *\nfrom pedal.core.feedback import Feedback\nFeedback.override(muted=True)\n"
                      "gently('silenced')\n"),
    'override_assert': ("from pedal import *\nassert_equal.override(title='AE', priority='low')\n"
                        "assert_equal(call('add', 1, 2), 4)\n"),
    'plots': ("from pedal import *\nfrom pedal.extensions.plotting import assert_plot\nassert_plot('line', [1, 2, 3])\n"),
    'inputs': "from pedal import *\nset_input(['zed', 'why'])\nrun()\nassert_output_contains(get_sandbox(), 'hi')\n",
    'mock_module': ("from pedal import *\nget_sandbox().mock_module('helperlib', {'answer': 42}, 'helperlib')\nrun()\n"
                    "gently('mocked')\n"),
    'allow': "from pedal import *\nallow_function('exit')\nallow_module('pedal')\nrun()\ngently('allowed')\n",
    'seeded': "from pedal import *\nfrom pedal.questions.setup import set_seed\nset_seed(7)\nset_pools(3)\ngently('seeded')\n",
    'partial': "from pedal import *\ngive_partial(.25)\ncompliment('nice', score='+10%')\ngently('partial')\n",
    'plain': "from pedal import *\ngently('You did a thing', label='thing')\n",
    # arguments too long (or not literal enough) to be quoted in the feedback: pedal stores them under generated names
    'long_args': ("from pedal import *\nassert_equal(call('add', list(range(100)), [float('inf')]), 3)\n"
                  "assert_equal(call('add', 'x' * 300, 'y'), 3)\n"),
    # two feedback classes of the same name (pedal ships such a pair) overridden in one script
    'override_same_name': ("from pedal import *\nfrom pedal.source import feedbacks as sf\nfrom pedal.sandbox import feedbacks as bf\n"
                           "sf.indentation_error.override(title='Check your spaces', message_template='Line {lineno} is not lined up.')\n"
                           "bf.indentation_error.override(title='Sandbox spaces')\n"),
    'nothing': "from pedal import *\n",
}
SUBS = {
    'good': "def add(a, b):\n    return a + b\nprint(add(1, 2))\n",
    'wrong': "def add(a, b):\n    return a - b\nunused = 1\n",
    'syntax': "def add(a, b):\n    return a +\n",
    'runtime': "def add(a, b):\n    return a + b\nprint(add(1, 2))\nprint(1/0)\n",
    'sectioned': "x = 1\n##### Part 1\ndef add(a, b):\n    return a + b\nprint(len([1]))\n",
    'io': "def add(a, b):\n    return a + b\nname = input('n?')\nprint('hi', name, len(name))\n",
    'blank': "\n",
    'indent': "def add(a, b):\n    return a + b\n  x = 1\n",
    # what the analyser knows about the plotting library decides which feedback this program gets
    'plot_typed': "import matplotlib.pyplot as plt\ndef add(a, b):\n    return a + b\nlabel = 'Drew ' + plt.plot([1, 2, 3])\n",
    'tifa': "def add(a, b):\n    return a + b\nprint(undefined_thing)\n",
    'modmutate': "import math\ndef add(a, b):\n    return a + b\nif add(0, 0):\n    math.pi = '3.14'\n",
    'moduse': "import math\ndef add(a, b):\n    return a + b\nradius = 2\nprint(math.pi + radius)\n",
    'plot': "import matplotlib.pyplot as plt\ndef add(a, b):\n    return a + b\nplt.plot([1, 2, 3])\nplt.show()\n",
    'usehelper': "def add(a, b):\n    return a + b\nimport helperlib\nprint(helperlib.answer)\n",
    'exits': "def add(a, b):\n    return a + b\nimport pedal\nexit()\n",
    'strexit': ("def add(a, b):\n    return a + b\nclass Quit(Exception):\n    def __str__(self):\n        raise SystemExit(3)\n"
                "print(add(1, 2))\nraise Quit()\n"),
    'nameerr': "def add(a, b):\n    return a + b\nimport math\nprint(math.sqrt('x'))\n",
}
# every module whose TIFA type pedal builds in (and that exists or is mocked at run time): one submission that
# assigns over a member, one that uses the member properly -- the pair collides on the process-wide module types
MODULE_MEMBERS = [('math', 'math', 'sqrt', '(4)'), ('random', 'random', 'randint', '(1, 2)'), ('json', 'json', 'dumps', '([1])'),
                  ('string', 'string', 'capwords', "('a b')"), ('pprint', 'pprint', 'pprint', '([1])'),
                  ('turtle', 'turtle', 'forward', '(10)'), ('pyplot', 'matplotlib.pyplot', 'title', "('Growth')")]
for _key, _mod, _member, _args in MODULE_MEMBERS:
    # (guarded by a false condition: TIFA sees the assignment, the real module is not touched at run time)
    SUBS['mut:' + _key] = "import %s as lib\ndef add(a, b):\n    return a + b\nif add(0, 0):\n    lib.%s = 'Decline'\n" % (_mod, _member)
    SUBS['use:' + _key] = "import %s as lib\ndef add(a, b):\n    return a + b\nvalue = lib.%s%s\nprint(add(1, 2))\n" % (_mod, _member, _args)
# ... and one pair where the assignment really happens: the student's program changes a real module of the process
SUBS['rt_mut'] = "import math\ndef add(a, b):\n    return a + b\nmath.tau = 'seven'\nprint(add(1, 2))\n"
SUBS['rt_use'] = "import math\ndef add(a, b):\n    return a + b\nprint(math.tau + add(1, 2))\n"
# ... and the built-in constructor types (list/dict/set/tuple): one submission subscripts them, one uses them bare
SUBS['ann:list'] = "def add(a, b):\n    return a + b\ndef total(xs: list[int]) -> int:\n    return sum(xs)\nprint(total([1, 2]))\n"
SUBS['use:list'] = ("def add(a, b):\n    return a + b\ndef shout(words: list) -> str:\n    return ' '.join(words)\n"
                    "print(shout(['a', 'b']))\n")
SUBS['ann:dict'] = "def add(a, b):\n    return a + b\ndef count(d: dict[str, int]) -> int:\n    return len(d)\nprint(count({'a': 1}))\n"
SUBS['use:dict'] = "def add(a, b):\n    return a + b\ndef keys(d: dict) -> list:\n    return list(d)\nprint(keys({1: 'x'}))\n"
MODULE_SUBS = [k for k in SUBS if k[:4] in ('mut:', 'use:', 'ann:')] + ['rt_mut', 'rt_use']
ENVS = ['standard', 'blockpy', 'gradescope', 'terminal']

REF = {}


def grade(sname, pname, env, sub=None):
    from pedal.command_line.modes import Bundle
    from pedal.core.submission import Submission
    cfg = argparse.Namespace(threaded=False, resolver='resolve')
    if sub is None:
        sub = Submission(main_file='answer.py', main_code=SUBS[pname], instructor_file='ics.py')
    b = Bundle(cfg, SCRIPTS[sname], sub)
    b.environment = env
    saved = sys.stdout
    try:
        try:
            b.run_ics_bundle()
        finally:
            sys.stdout = saved
    except BaseException as e:   # noqa
        return ['BUNDLE RAISED', type(e).__name__, str(e)[:80]]
    r = b.result
    res = r.resolution
    proj = [type(r.error).__name__ if r.error else None, r.output]
    if res is not None and hasattr(res, 'label'):
        proj += [res.label, res.title, res.message, res.correct, res.score]
    else:
        proj += [repr(res)[:200]]
    return json.loads(json.dumps(proj, default=repr))


def gradings(tier):
    """The grading alphabet after removing pointless combinations."""
    out = []
    for s in SCRIPTS:
        for p in SUBS:
            out.append((s, p, 'standard'))
    for env in ENVS[1:]:
        for s in ('assert', 'override', 'override_template', 'suppress', 'formatter', 'crash', 'plain', 'max_score', 'partial'):
            for p in ('good', 'runtime', 'syntax', 'tifa'):
                out.append((s, p, env))
    return out


CORE_SCRIPTS = ['assert', 'override', 'override_template', 'override_tifa', 'suppress', 'formatter', 'mock', 'sections_open',
                'sections_prologue',
                'crash', 'group_crash', 'sandbox_attrs', 'nothing', 'override_base', 'override_assert', 'inputs', 'mock_module',
                'partial']
CORE_SUBS = ['good', 'wrong', 'syntax', 'runtime', 'tifa', 'io', 'modmutate', 'moduse', 'usehelper', 'sectioned', 'strexit']


def compute_references(keys):
    """Run every distinct grading first in a fresh interpreter (parallel subprocesses)."""
    here = os.path.dirname(os.path.dirname(os.path.abspath(__file__)))
    env = dict(os.environ)
    procs = []
    out = {}
    todo = [k for k in keys if k not in REF]
    batch = 16
    for i in range(0, len(todo), batch):
        procs = {}
        for k in todo[i:i + batch]:
            code = ("import sys, json, warnings; warnings.filterwarnings('ignore'); sys.stdin = open('/dev/null');"
                    "sys.path.insert(0, %r); sys.path.insert(0, %r);"
                    "from checks import c13; print('\\n@@' + json.dumps(c13.grade(*%r)))" % (here, os.environ.get('PEDAL_REPO', '/repo'), tuple(k)))
            procs[k] = subprocess.Popen([sys.executable, '-c', code], stdout=subprocess.PIPE, stderr=subprocess.PIPE,
                                        text=True, env=env, cwd='/')
        for k, p in procs.items():
            so, se = p.communicate()
            line = [l for l in so.split("\n") if l.startswith('@@')]
            if not line:
                raise RuntimeError('reference grading %r failed: %s' % (k, se[-400:]))
            REF[k] = json.loads(line[-1][2:])
    return REF


def _setup():
    import warnings
    warnings.filterwarnings('ignore')


_REAL = {}


def _restore_real_modules():
    """Harness hygiene for the long-lived worker: a submission that really assigns into a stdlib module must show up
    in the history that contains it, not in every later history of the same worker."""
    import importlib
    for name in ('math', 'random', 'json', 'string', 'pprint'):
        mod = importlib.import_module(name)
        if name not in _REAL:
            _REAL[name] = dict(vars(mod))
        else:
            d = vars(mod)
            for k in list(d):
                if k not in _REAL[name]:
                    del d[k]
            d.update(_REAL[name])


def make_body(keys, length):
    def body(ctx):
        _restore_real_modules()
        hist = [keys[ctx.choose(len(keys), 'g%d' % i)] for i in range(length)]
        ctx.observe(repr(hist))
        ctx.set_sample([list(h) for h in hist])
        mutators = {'override', 'override_template', 'override_tifa', 'override_source', 'suppress', 'suppress_label',
                    'formatter', 'mock', 'sections', 'sections_open', 'crash', 'group_crash', 'tifa_mod', 'hide',
                    'sandbox_attrs', 'pools', 'hook', 'max_score', 'override_base', 'override_assert', 'plots', 'inputs',
                    'mock_module', 'allow', 'seeded', 'partial', 'sections_prologue', 'long_args', 'override_same_name'}
        if any(h[0] in mutators or (h[1] in ('modmutate', 'plot', 'rt_mut', 'strexit') or h[1][:4] in ('mut:', 'ann:')) for h in hist[:-1]):
            ctx.mark_nontrivial(repr(hist))
        # a submission graded twice in one history may be handed over as the same Submission object (what a
        # pipeline that verifies and then grades does) or as a fresh one
        from pedal.core.submission import Submission
        repeated = len({h[1] for h in hist}) < len(hist)
        reuse = bool(ctx.choose(2, 'same-submission-object')) if repeated else False
        objects = {}
        for pos, k in enumerate(hist):
            ctx.step(('grade',) + tuple(k) + (('same Submission object',) if reuse and k[1] in objects else ()))
            sub = None
            if reuse:
                if k[1] not in objects:
                    objects[k[1]] = Submission(main_file='answer.py', main_code=SUBS[k[1]], instructor_file='ics.py')
                sub = objects[k[1]]
            got = grade(*k, sub=sub)
            want = REF[tuple(k)]
            if got != want:
                diff = [i for i, (x, y) in enumerate(zip(got, want)) if x != y] or ['length']
                names = ['error', 'output', 'label', 'title', 'message', 'correct', 'score']
                prev = hist[pos - 1] if pos else None
                ctx.fail({'symptom': 'grading differs from the fresh-interpreter result',
                          'after_script': prev[0] if prev else '(first)', 'after_submission_kind': prev[1] if prev else '-',
                          'submission_kind': k[1], 'same_submission_object': bool(reuse and pos and k[1] in [h[1] for h in hist[:pos]]),
                          'fields': ','.join(names[i] if isinstance(i, int) and i < len(names) else str(i) for i in diff)},
                         history=[list(h) for h in hist[:pos + 1]], got=[str(x)[:160] for x in got],
                         fresh=[str(x)[:160] for x in want])
                break
        ctx.outcome('same' if not ctx.fails else 'differs')
    return body


def bounds(tier):
    g = gradings(tier)
    return {'gradings': len(g), 'scripts': len(SCRIPTS), 'submissions': len(SUBS), 'environments': ENVS,
            'pairs': 'all ordered pairs over the core (%d x %d standard) plus every (mutating script, colliding submission) '
                     'cross environments' % (len(CORE_SCRIPTS), len(CORE_SUBS)),
            'triples': 'thorough: all ordered triples over a 20-grading core'}


def phases(tier):
    core = [(s, p, 'standard') for s in CORE_SCRIPTS for p in CORE_SUBS]
    envcore = [(s, p, e) for e in ENVS[1:] for s in ('override_template', 'override', 'formatter', 'plain')
               for p in ('runtime', 'good', 'syntax')]
    envcore += [('max_score', p, 'gradescope') for p in ('good', 'runtime')]
    envcore += [('nothing', p, 'standard') for p in MODULE_SUBS] + [('assert', p, 'standard') for p in MODULE_SUBS]
    envcore += [('long_args', p, 'standard') for p in ('good', 'wrong', 'runtime')]
    # a script that pulls in an optional extension (first import in the process) next to a submission that uses the library
    envcore += [('plots', 'good', 'standard'), ('plots', 'plot', 'standard'), ('nothing', 'plot', 'standard'), ('assert', 'plot', 'standard'),
                ('nothing', 'plot_typed', 'standard'), ('plots', 'plot_typed', 'standard')]
    envcore += [('override_same_name', 'good', 'standard'), ('override_same_name', 'indent', 'standard'),
                ('nothing', 'indent', 'standard'), ('assert', 'indent', 'standard')]
    allg = gradings(tier)
    keys_pairs = core + envcore if tier == 'quick' else allg
    compute_references(sorted(set(keys_pairs)))
    ph = [Phase('pairs', make_body(keys_pairs, 2), setup=_setup, chunk=100, horizon_s=60,
                describe='all ordered pairs over %d gradings' % len(keys_pairs))]
    if tier == 'thorough':
        tri = [(s, p, 'standard') for s in ('assert', 'override', 'override_template', 'suppress', 'crash') for p in ('good', 'runtime', 'tifa', 'moduse')]
        ph.append(Phase('triples', make_body(tri, 3), setup=_setup, chunk=100, horizon_s=60,
                        describe='all ordered triples over %d gradings' % len(tri)))
    return ph
