"""C01 -- resolver shows the highest-priority eligible feedback and nothing ineligible.

Driver A (operation histories against a reference model), DESIGN.md section 2/C01.
Layer (i)  rank grid: every ordered pair of plain feedbacks over category x priority.
Layer (ii) interaction: all creation sequences up to a length over a descriptor
           alphabet, crossed with suppression sets and their placement.
"""
from mc.explore import Phase
from checks import resolver_common as ref

PROPERTY = 'C01'
RULE = ('a case is a (creation sequence of feedback descriptors, suppression set, placement) triple '
        'executed on the real report + simple.resolve/full.resolve; non-trivial = the report has >=2 '
        'eligible feedbacks of different effective rank, or an eligible feedback that is out-ranked by '
        'an ineligible (muted/suppressed/untriggered/compliment) one; distinct by canonical report')
ASSUMPTIONS = [
    'reference rank table copied from the C01 statement / docsrc/developers/ffs.rst',
    'the reference reads public attributes of the created Feedback objects (C20 checks those)',
    'priorities the statement does not define (junk strings) are only checked for "never raises"',
]
EXPLANATION = ('explicit enumeration of all operation histories (feedback creations, suppressions) up to '
               'the depth bound on the real Report/resolver; oracle = reference model of the documented order')

CATS = ['syntax', 'mistakes', 'instructor', 'algorithmic', 'runtime', 'student', 'specification',
        'positive', 'instructions', 'uncategorized', 'complete', 'system', 'style', 'custom', 'Runtime',
        'INSTRUCTOR', None]
PRIOS = [None, 'high', 'medium', 'low', 'highest', 'lowest', 'student', 'parser', 'HIGH', 'junk']


def _setup():
    global Feedback, simple, full, cmds, MAIN_REPORT
    from pedal.core.feedback import Feedback
    from pedal.core.report import MAIN_REPORT
    from pedal.resolvers import simple, full
    import importlib
    cmds = importlib.import_module("pedal.core.commands")


_CF = {}


def _cf_class():
    """An instructor-defined feedback class with constant fields, created with keyword fields (no fields= dict)."""
    if 'cls' not in _CF:
        class misspelled_name(Feedback):
            category = 'mistakes'
            constant_fields = {'hint': 'check the spelling'}
            message_template = "misspelled {name}: {hint}"

            def __init__(self, name, **kwargs):
                super().__init__(name=name, **kwargs)
        _CF['cls'] = misspelled_name
    return _CF['cls']


def _mk(desc, k):
    """Create one feedback through the real API from a descriptor."""
    kind = desc.get('via', 'Feedback')
    kw = {a: b for a, b in desc.items() if a != 'via'}
    if kind == 'CF':
        name = kw.pop('name')
        kw.setdefault('label', 'L')
        fb = _cf_class()(name, **kw)
        try:
            fb._verif_req = dict(kw, fields={'name': name, 'hint': 'check the spelling'})
        except Exception:
            pass
        return fb
    if kind == 'Feedback':
        kw.setdefault('label', 'f%d' % k)
        if 'message' in kw and kw['message'] is None:
            del kw['message']          # rendered from the template
        else:
            kw.setdefault('message', 'msg%d' % k)
        kw.setdefault('valence', -1)
        fb = Feedback(**kw)
        try:
            fb._verif_req = dict(kw)       # the reference model reads what was asked for
        except Exception:
            pass
        return fb
    f = getattr(cmds, kind)
    if kind in ('gently', 'explain', 'guidance', 'compliment'):
        kw.setdefault('label', '%s%d' % (kind, k))
        fb = f('m%s%d' % (kind, k), **kw)
    elif kind == 'give_partial':
        fb = f(0.25, **kw)
    else:
        fb = f(**kw)
    try:
        fb._verif_req = dict(kw)           # what the call asked for wins over what the object recorded
    except Exception:
        pass
    return fb


# interaction alphabet: every rank class, every priority shift, every eligibility kind
ALPHA = [
    dict(category='syntax'),
    dict(category='mistakes'),
    dict(category='instructor', priority='low'),
    dict(category='algorithmic', priority='high'),
    dict(category='runtime'),
    dict(category='runtime', priority='highest'),
    dict(category='specification', priority='syntax'),
    dict(category='student', priority='lowest'),
    dict(category='custom'),
    dict(category='Instructor', title='T'),
    dict(category='uncategorized', priority='parser'),
    dict(via='gently'),
    dict(via='explain'),
    dict(via='explain', priority='low', label='L'),
    dict(via='guidance'),
    dict(via='compliment'),
    dict(via='set_correct'),
    dict(via='give_partial'),
    dict(category='syntax', muted=True),
    dict(category='highest', kind='Compliment', correct=True),
    dict(category='syntax', activate=False),
    dict(category='mistakes', activate=False, else_message='yay'),
    dict(category='mistakes', fields={'x': 1}, label='L'),
    dict(category='mistakes', fields={'x': 2}, label='L'),
    dict(category='positive', correct=True, valence=1),
    dict(category='instructions', kind='Instructional', valence=0),
    dict(category='runtime', message=''),
    dict(category='mistakes', fields={'x': 1, 'y': 2}, label='L'),
    dict(category='mistakes', fields={'x': 2, 'y': 2}, label='L'),
    dict(via='CF', name='totl'),
    dict(via='CF', name='cnt'),
]
ALPHA_NONE = [dict(category=None), dict(category=None, priority='high')]

SUP_FORMS = [
    ('mistakes', True, None),
    ('mistakes', 'L', None),
    ('mistakes', 'L', {'x': 1}),
    ('mistakes', 'l', {'x': 3}),
    (None, 'L', None),
    (None, 'L', {'x': 2}),
    (None, 'L', {'x': 1}),
    (None, 'L', {'name': 'totl'}),
    ('mistakes', 'L', {'x': 1, 'y': 2}),
    (None, 'L', {'y': 2, 'x': 1}),
    ('mistakes', 'L', {'name': 'cnt'}),
    (None, 'absent', None),
    ('parser', True, None),
    ('INSTRUCTOR', True, None),
    ('runtime', 'nothere', None),
    ('instructor', 'L', None),
]


def _sup_sets(max_size):
    out = [[]]
    for i, a in enumerate(SUP_FORMS):
        out.append([a])
    if max_size >= 2:
        # ordered pairs: two suppressions of the same label/category in either order
        for a in SUP_FORMS:
            for b in SUP_FORMS:
                if a is not b:
                    out.append([a, b])
    return out


SUPS_FULL = _sup_sets(2)
SUPS_SMALL = [[]] + [[SUP_FORMS[i]] for i in (0, 2, 4, 5, 7, 8)]


def _apply_sups(sups):
    for (c, l, f) in sups:
        cmds.suppress(c, l, f)


def _judge(ctx, fbs, sups, what, resolve_simple=None, resolve_full=None):
    """Resolve with the real resolvers and compare against the reference."""
    simple_resolve = resolve_simple or simple.resolve
    full_resolve = resolve_full or full.resolve
    exp = ref.reference(fbs, sups)
    report = MAIN_REPORT
    canon = repr([(type(f).__name__, f.label, f.category, f.priority, f.kind, bool(f), f.muted,
                   sorted((k, repr(v)) for k, v in f.fields.items() if k != 'location'),
                   f.else_message is not None) for f in fbs]) + repr(sups)
    ctx.observe(canon)
    ctx.set_sample({'feedbacks': [ref.describe(f) for f in fbs], 'suppressions': sups})
    try:
        ctx.step('simple.resolve')
        r = simple_resolve()
        got = dict(label=r.label, title=r.title, message=r.message, category=r.category)
    except Exception as e:  # the property: resolving never raises
        import traceback
        tb = traceback.extract_tb(e.__traceback__)[-1]
        ctx.fail({'symptom': 'resolve raised', 'exception': type(e).__name__, 'at': '%s:%s' % (
            tb.filename.split('/pedal/')[-1], tb.name)}, case=what, message=str(e)[:200])
        ctx.outcome('raised:' + type(e).__name__)
        return
    if exp is None:
        ctx.abstain()
        ctx.outcome('abstain-undefined-priority')
        return
    if exp['default']:
        want = dict(label='set_correct_no_errors', title='Complete', message='Great work!', category='complete')
    else:
        want = {k: exp[k] for k in ('label', 'title', 'message', 'category')}
        # non-trivial: competition between different ranks, or an ineligible one would out-rank
        best_any = None
        for i, f in enumerate(fbs):
            rk = ref.rank(f)
            if rk is not None and (best_any is None or (rk, i) < best_any[0]):
                best_any = ((rk, i), f)
        if exp['distinct_ranks'] >= 2 or (best_any is not None and best_any[1] is not fbs[exp['winner']]):
            ctx.mark_nontrivial(canon)
    ctx.outcome('default' if exp['default'] else 'winner-rank-%s' % (ref.rank(fbs[exp['winner']]),))
    if got != want:
        # classify
        shown = [f for f in fbs if f.label == got['label'] and f.message == got['message']]
        why = 'unknown'
        if exp['default']:
            why = 'default expected'
        if shown:
            f = shown[0]
            if not bool(f):
                why = 'untriggered shown'
            elif f.muted:
                why = 'muted shown'
            elif f.kind == ref.COMPLIMENT:
                why = 'compliment shown'
            elif ref.suppressed(f, sups):
                why = 'suppressed shown'
            elif not exp['default']:
                why = 'lower-ranked shown'
        elif got['label'] == 'set_correct_no_errors':
            why = 'default shown although an eligible feedback exists'
        ctx.fail({'symptom': 'wrong feedback delivered', 'why': why}, case=what, expected=want, got=got)
    # resolving again must deliver the same feedback
    try:
        ctx.step('simple.resolve (again)')
        r2 = simple_resolve()
        got2 = dict(label=r2.label, title=r2.title, message=r2.message, category=r2.category)
        if got2 != got:
            ctx.fail({'symptom': 'second resolve of the same report differs'}, case=what, first=got, second=got2)
    except Exception as e:
        ctx.fail({'symptom': 'second resolve raised', 'exception': type(e).__name__}, case=what, message=str(e)[:200])
    # full resolver: nothing ineligible among the used feedback
    try:
        ctx.step('full.resolve')
        rf = full_resolve()
        for f in rf.used:
            if f.else_message and not bool(f):
                continue   # documented: an untriggered feedback with an else_message is kept as a positive
            if not ref.eligible(f, sups) and f.kind != ref.COMPLIMENT:
                ctx.fail({'symptom': 'full.resolve used an ineligible feedback'}, case=what, feedback=ref.describe(f))
            if f.kind == ref.COMPLIMENT and (not bool(f) or f.muted or ref.suppressed(f, sups)):
                ctx.fail({'symptom': 'full.resolve used an ineligible compliment'}, case=what, feedback=ref.describe(f))
    except Exception as e:
        ctx.fail({'symptom': 'full.resolve raised', 'exception': type(e).__name__}, case=what, message=str(e)[:200])


def body_grid(ctx):
    c1 = ctx.choose(len(CATS), 'cat1')
    p1 = ctx.choose(len(PRIOS), 'prio1')
    c2 = ctx.choose(len(CATS), 'cat2')
    p2 = ctx.choose(len(PRIOS), 'prio2')
    cmds.clear_report()
    d1 = dict(category=CATS[c1], priority=PRIOS[p1])
    d2 = dict(category=CATS[c2], priority=PRIOS[p2])
    ctx.step(('create', d1))
    ctx.step(('create', d2))
    fbs = [_mk(d1, 0), _mk(d2, 1)]
    _judge(ctx, fbs, [], {'feedbacks': [d1, d2], 'suppressions': []})


SUP_CATS = [c for c in CATS if c is not None] + ['parser', 'verifier', 'analyzer', 'Style', 'zzz', 'Analyzer', 'PARSER', 'Verifier']


# labels in other scripts (lower(), casefold() and upper() disagree on some of them)
SUP_LABELS = ['La', 'falsche_gr\u00f6\u00dfe', '\u03bb\u03ac\u03b8\u03bf\u03c2', '\ufb01le_size', 'tama\u00f1o', '\u540d\u524d_error']
FILLERS = [dict(category='instructor'), dict(category='specification'), dict(category='instructor', activate=False),
           dict(category='syntax', muted=True), dict(via='compliment')]
LARGE_RANKS = [dict(category='instructor'), dict(category='instructor', priority='high'), dict(category='instructor', priority='low'),
               dict(category='mistakes'), dict(category='specification'), dict(category='runtime', priority='highest'),
               dict(category='student', priority='lowest'), dict(category='syntax')]
LARGE_N = [19, 20, 21, 99, 100, 101, 130]


def body_large(ctx):
    """Two ranked feedbacks with many others created between them: what is shown does not depend on how many."""
    d1 = LARGE_RANKS[ctx.choose(len(LARGE_RANKS), 'first')]
    d2 = LARGE_RANKS[ctx.choose(len(LARGE_RANKS), 'last')]
    fill = FILLERS[ctx.choose(len(FILLERS), 'filler')]
    n = LARGE_N[ctx.choose(len(LARGE_N), 'how-many-between')]
    cmds.clear_report()
    ctx.step(('create', d1, n, fill, d2))
    fbs = [_mk(d1, 0)] + [_mk(fill, k + 1) for k in range(n)] + [_mk(d2, n + 1)]
    _judge(ctx, fbs, [], {'first': d1, 'between': '%d x %r' % (n, fill), 'last': d2, 'suppressions': []})


SEC_ALPHA = [dict(category='instructor'), dict(category='instructor', priority='high'), dict(category='instructor', priority='low'),
             dict(category='syntax'), dict(category='specification'), dict(category='runtime', muted=True),
             dict(category='mistakes', activate=False), dict(via='compliment')]
PARENTS = [None, 'part1', 'part2']


def body_sectional(ctx):
    """The sectional resolver: the feedbacks of every group (parent), in whatever order the groups' feedbacks were
    created, are resolved like a report of their own."""
    from pedal.resolvers import sectional
    n = ctx.choose(4, 'n') + 1
    ds = []
    for k in range(n):
        d = dict(SEC_ALPHA[ctx.choose(len(SEC_ALPHA), 'fb%d' % k)])
        par = PARENTS[ctx.choose(len(PARENTS), 'parent%d' % k)]
        if par is not None:
            d['parent'] = par
        ds.append(d)
    cmds.clear_report()
    fbs = []
    for k, d in enumerate(ds):
        ctx.step(('create', d))
        fb = _mk(d, k)
        if getattr(fb, '_verif_req', None):
            fb._verif_req.pop('parent', None)
        fbs.append(fb)
    case = {'feedbacks': ds, 'suppressions': []}
    canon = repr(ds)
    ctx.observe(canon)
    ctx.set_sample(case)
    groups = []
    for d in ds:
        if d.get('parent') not in groups:
            groups.append(d.get('parent'))
    if len(groups) > 1 and [d.get('parent') for d in ds] != sorted([d.get('parent') for d in ds], key=groups.index):
        ctx.mark_nontrivial(canon)          # the groups' feedbacks are interleaved
    ctx.step('sectional.resolve')
    try:
        finals = sectional.resolve()
    except Exception as e:
        ctx.fail({'symptom': 'resolve raised', 'exception': type(e).__name__, 'at': 'sectional'}, case=case, message=str(e)[:200])
        return
    for g in groups:
        mine = [f for f, d in zip(fbs, ds) if d.get('parent') == g and f in MAIN_REPORT.feedback]
        exp = ref.reference(mine, [])
        if exp is None:
            ctx.abstain()
            continue
        if g not in finals:
            if mine:
                ctx.fail({'symptom': 'a group of feedbacks has no result of the sectional resolver'}, case=case, group=g)
            continue
        r = finals[g]
        got = dict(label=r.label, title=r.title, message=r.message, category=r.category)
        if exp['default']:
            want = dict(label='set_correct_no_errors', title='Complete', message='Great work!', category='complete')
        else:
            want = {k: exp[k] for k in ('label', 'title', 'message', 'category')}
        if got != want:
            ctx.fail({'symptom': 'wrong feedback delivered', 'why': 'sectional resolver, group of the feedback'}, case=case,
                     group=g, expected=want, got=got)
    ctx.outcome('sectional-%d-groups' % len(groups))


POOL_PRIOS = ['high', 'low', 'highest', None]


def body_pools(ctx):
    """A/B pools: the chosen arm overrides attributes of every feedback (here: the priority of all of them); what
    is shown is decided with the attributes the feedbacks carry once the arm is applied."""
    from pedal.core.feedback import Feedback as FB
    d1 = dict(LARGE_RANKS[ctx.choose(len(LARGE_RANKS), 'first')])
    d2 = dict(LARGE_RANKS[ctx.choose(len(LARGE_RANKS), 'second')])
    pp = POOL_PRIOS[ctx.choose(len(POOL_PRIOS), 'arm-priority')]
    cmds.clear_report()
    saved = dict(FB._pools)
    try:
        cmds.set_pools(['arm'])
        if pp is not None:
            FB.override_for_pool('arm', priority=pp)
        ctx.step(('pool arm priority', pp))
        fbs = [_mk(d1, 0), _mk(d2, 1)]
        if pp is not None:
            for f in fbs:
                f._verif_req['priority'] = pp        # what the arm asks for wins over what the call asked for
        _judge(ctx, fbs, [], {'feedbacks': [d1, d2], 'pool_priority': pp, 'suppressions': []})
    finally:
        FB._pools.clear()
        FB._pools.update(saved)
        MAIN_REPORT.set_pools([])


def body_category_suppression(ctx):
    """One feedback of every category against a suppression of every category name (and every documented alias):
    exactly the feedback of that category is hidden."""
    a = CATS[ctx.choose(len(CATS), 'cat1')]
    b = CATS[ctx.choose(len(CATS), 'cat2')]
    sc = SUP_CATS[ctx.choose(len(SUP_CATS), 'suppressed-category')]
    form = ctx.choose(3, 'with-label')          # category only | label as spelled | label capitalised
    la = SUP_LABELS[ctx.choose(len(SUP_LABELS), 'label')]
    cmds.clear_report()
    d1, d2 = dict(category=a, label=la), dict(category=b, label='Lb')
    fbs = [_mk(d1, 0), _mk(d2, 1)]
    sups = [(sc, True if form == 0 else la if form == 1 else la[0].upper() + la[1:], None)]
    ctx.step(('suppress', sups))
    _apply_sups(sups)
    _judge(ctx, fbs, sups, {'feedbacks': [d1, d2], 'suppressions': sups})


def make_private_report(alpha):
    """The same judgement on a report object of the caller's own, handed to every call (feedback constructors,
    suppress, resolve by keyword or by position), while the global report holds a decoy that would win."""
    usable = [d for d in alpha if d.get('via') in (None, 'gently', 'explain', 'guidance', 'compliment', 'set_correct', 'give_partial')]

    def body(ctx):
        from pedal.core.report import Report
        L = ctx.choose(2, 'len') + 1
        seq = [ctx.choose(len(usable), 'fb%d' % k) for k in range(L)]
        sups = SUPS_SMALL[ctx.choose(len(SUPS_SMALL), 'sups')]
        how = ('keyword', 'positional')[ctx.choose(2, 'report-passed-by')]
        cmds.clear_report()
        Feedback(label='decoy', category='syntax', message='decoy on the global report', priority='highest')
        mine = Report()
        fbs = []
        for k, di in enumerate(seq):
            d = dict(usable[di])
            d['report'] = mine
            ctx.step(('create on own report', usable[di]))
            fb = _mk(d, k)
            if getattr(fb, '_verif_req', None):
                fb._verif_req.pop('report', None)
            fbs.append(fb)
        for (c, l, f) in sups:
            cmds.suppress(c, l, f, report=mine)
        if how == 'keyword':
            rs, rf = (lambda: simple.resolve(report=mine)), (lambda: full.resolve(report=mine))
        else:
            rs, rf = (lambda: simple.resolve(mine)), (lambda: full.resolve(mine))
        _judge(ctx, fbs, sups, {'feedbacks': [usable[i] for i in seq], 'suppressions': sups, 'own_report': how}, rs, rf)
        for sig, det in ctx.fails:
            sig['report'] = 'own report passed by ' + how
    return body


def make_interaction(max_len, alpha, full_sups_up_to):
    def body(ctx):
        L = ctx.choose(max_len, 'len') + 1
        seq = [ctx.choose(len(alpha), 'fb%d' % k) for k in range(L)]
        supsets = SUPS_FULL if L <= full_sups_up_to else SUPS_SMALL
        sups = supsets[ctx.choose(len(supsets), 'sups')]
        first = bool(ctx.choose(2, 'sups-first')) if sups else False
        cmds.clear_report()
        if first:
            ctx.step(('suppress', sups))
            _apply_sups(sups)
        fbs = []
        for k, di in enumerate(seq):
            ctx.step(('create', alpha[di]))
            fbs.append(_mk(alpha[di], k))
        if not first and sups:
            ctx.step(('suppress', sups))
            _apply_sups(sups)
        _judge(ctx, fbs, sups, {'feedbacks': [alpha[i] for i in seq], 'suppressions': sups,
                                'suppress_first': first})
    return body


def bounds(tier):
    return {'grid': '%d categories x %d priorities, ordered pairs' % (len(CATS), len(PRIOS)),
            'interaction_alphabet': len(ALPHA) + len(ALPHA_NONE),
            'max_len': 3 if tier == 'quick' else 4,
            'suppression_sets_full': len(SUPS_FULL), 'suppression_sets_small': len(SUPS_SMALL),
            'full_suppression_cross_up_to_len': 2 if tier == 'quick' else 3}


def phases(tier):
    alpha = ALPHA + ALPHA_NONE
    if tier == 'quick':
        inter = make_interaction(3, alpha, 2)
    else:
        inter = make_interaction(4, alpha, 3)
    return [
        Phase('rank-grid', body_grid, setup=_setup,
              describe='every ordered pair of plain feedbacks over category x priority'),
        Phase('interaction', inter, setup=_setup,
              describe='all creation sequences x suppression sets x placement'),
        Phase('category-suppression', body_category_suppression, setup=_setup,
              describe='feedback of every category pair x suppression of every category name and alias'),
        Phase('sectional', body_sectional, setup=_setup,
              describe='sectional resolver: <=4 feedbacks over 8 descriptors x 3 groups (parents) in every creation order'),
        Phase('pools', body_pools, setup=_setup,
              describe='an A/B arm that overrides the priority of every feedback: ordered pairs over 8 ranks x 4 arm priorities'),
        Phase('large-reports', body_large, setup=_setup, chunk=20,
              describe='two ranked feedbacks with 19..130 other feedbacks created between them'),
        Phase('own-report', make_private_report(alpha), setup=_setup,
              describe='sequences <=2 on a caller-owned Report passed to every call (decoy on the global report)'),
    ]
