"""C07 -- runtime assertions pass only when the asserted relation really holds.

Driver B: every assert_* class x operand pairs from a value alphabet x wrapping
(raw/raw, proxy/raw, raw/proxy, proxy/proxy).  Oracle: the Python relation evaluated in
a try on the unwrapped operands actually passed.
"""
import operator
import dataclasses
import re
import string
from mc.explore import Phase

PROPERTY = 'C07'
RULE = ('a case is (assertion, left operand, right operand, wrapping); non-trivial = at least one operand is a proxy, '
        'an error, or the relation cannot be evaluated, or the operands differ only within tolerance/normalisation; '
        'distinct by the tuple')
ASSUMPTIONS = ['relation evaluated on unwrap_value(operand) - call() rebuilds values from their repr',
               'for assert_equal only what the statement promises is asserted (order independence, same-type equality, '
               'numeric tolerance with a 10% margin around delta, string normalisation, container kind/length)',
               'proxies are real call("identity", v)/evaluate() results; error operands are real call("boom") results',
               'assert_type/assert_not_type: only unambiguous (value, builtin type) pairs are judged']
EXPLANATION = 'exhaustive assertion x operand-pair x wrapping table on the real assertion classes; oracle = Python relations'

STUDENT = """
def identity(x):
    return x
def boom():
    return 1/0
class Opaque:
    pass
def p_hello():
    print("Hello, World!")
def p_two():
    print("line one")
    print("Line Two")
def p_none():
    x = 1
def p_num():
    print(42)
def p_space():
    print("  padded  ")
def p_blank_end():
    print("TOTAL")
    print()
def p_noeol():
    print("TOTAL", end="")
def p_newlines():
    print()
    print()
def p_blank_mid():
    print("a")
    print()
    print("b")
"""

@dataclasses.dataclass
class Card:
    """a dataclass instance as a CS1 value (equal by fields)"""
    suit: str
    value: int      # a field named like the attribute pedal's result proxy keeps its own payload in


VALUES = [0, 1, -1, 2, True, False, 1.0, 1.0005, 1.002, 0.9995, 'a', 'A', 'abc', 'a!', 'Hello, World', 'hello world',
          '', [], [1], [1, 2], [2, 1], (1, 2), (), {'a': 1}, {}, {1, 2}, None, [1.0005], [[1], [2]], (1, 'a'),
          {1.0005}, {'Hello, World'}, 3, {1}, {'hello world'}, {'k': {1.0005}}, {'k': {1}},
          b'ab', b'AB', frozenset({1, 2}), frozenset({1.0005}), frozenset({1}), 1 + 2j,
          Card('hearts', 5), Card('spades', 5), Card('hearts', 5),
          # numbers outside the comfortable range
          float('inf'), float('-inf'), float('inf'), 10 ** 30, 10 ** 30 + 1, 1e30, -0.0, 2.5e-4]
CORE = [0, 1, 2, True, 1.0, 1.0005, 1.002, 'a', 'A', 'a!', 'abc', [1], [1, 2], (1, 2), {'a': 1}, {1, 2}, None, [1.0005], {1.0005},
        {1}, {'Hello, World'}, {'hello world'}, b'ab', b'AB', frozenset({1.0005}), frozenset({1}),
        Card('hearts', 5), Card('spades', 5), float('inf'), float('-inf'), 10 ** 30]
SPECIAL = ['<error>', '<opaque>']
DELTA = .001

TYPES = [int, str, float, list, tuple, dict, bool, type(None)]
REGEXES = ['a+', '^h', r'\d', 'World$', '[', 'x|y']
TEXTS = ['caat', 'hello', 'h3llo', 'Hello World', '', 'xyz']
PRINTERS = {'p_hello': "Hello, World!\n", 'p_two': "line one\nLine Two\n", 'p_none': "", 'p_num': "42\n",
            'p_space': "  padded  \n", 'p_blank_end': "TOTAL\n\n", 'p_noeol': "TOTAL", 'p_newlines': "\n\n",
            'p_blank_mid': "a\n\nb\n"}
OUT_TEXTS = ["Hello, World!", "hello world", "line one\nLine Two", "42", "World", "zzz", "", "  padded", "TOTAL", "TOTAL\n",
             "\n", "a\nb", "a\n\nb"]


def _setup():
    global cmds, sb_cmds, MAIN_REPORT, R, unwrap_value, PROXY, ERR, OPAQUE, OPAQUE_P, PRINT_P
    import importlib
    cmds = importlib.import_module('pedal.core.commands')
    sb_cmds = importlib.import_module('pedal.sandbox.commands')
    from pedal.core.report import MAIN_REPORT
    import pedal.assertions.runtime as R
    from pedal.sandbox.result import unwrap_value
    _fresh()


def _fresh():
    """(Re)build the sandbox and the proxies; proxies stay valid while the report is not cleared."""
    global PROXY, ERR, OPAQUE, OPAQUE_P, PRINT_P, TYPE_P
    cmds.clear_report()
    cmds.contextualize_report(STUDENT)
    sb_cmds.run()
    PROXY = {}
    for i, v in enumerate(VALUES):
        PROXY[i] = sb_cmds.call('identity', v)
    ERR = sb_cmds.call('boom')
    OPAQUE_P = sb_cmds.evaluate('Opaque()')
    OPAQUE = unwrap_value(OPAQUE_P)
    PRINT_P = {name: sb_cmds.call(name) for name in PRINTERS}
    TYPE_P = {}


def operand(spec, proxied):
    """spec: index into VALUES or a SPECIAL name -> (object passed, unwrapped value, is_error)"""
    if spec == '<error>':
        return ERR, None, True
    if spec == '<opaque>':
        return (OPAQUE_P if proxied else OPAQUE), OPAQUE, False
    if proxied:
        p = PROXY[spec]
        return p, unwrap_value(p), False
    return VALUES[spec], VALUES[spec], False


def silent(fb):
    return (not bool(fb)) and all(f is not fb for f in MAIN_REPORT.feedback)


def _trim():
    """keep the report small: assertions accumulate feedback objects"""
    if len(MAIN_REPORT.feedback) + len(MAIN_REPORT.ignored_feedback) > 4000:
        del MAIN_REPORT.feedback[200:]
        del MAIN_REPORT.ignored_feedback[200:]


# ---- reference for assert_equal: True / False / None (the statement does not say) -------------

def _norm(s):
    table = str.maketrans(string.punctuation, ' ' * len(string.punctuation))
    return [l.split() for l in s.lower().translate(table).split("\n") if l.split()]


def _is_num(v):
    return isinstance(v, (int, float)) and not isinstance(v, bool)


def ref_equal(a, b, exact=False, delta=DELTA):
    if _is_num(a) and _is_num(b):
        if isinstance(a, int) and isinstance(b, int):
            return a == b
        if a == b:
            return True            # equal values (equal infinities included) are equal whatever the tolerance
        d = abs(float(a) - float(b))
        if d < 0.9 * delta:
            return True
        if d > 1.1 * delta:
            return False
        return None
    if isinstance(a, bool) or isinstance(b, bool):
        if type(a) is type(b):
            return a == b
        return None
    if isinstance(a, str) and isinstance(b, str):
        if exact:
            return a == b
        if _norm(a) == _norm(b):
            return True
        if sorted(c for c in a.lower() if c.isalnum()) != sorted(c for c in b.lower() if c.isalnum()):
            return False
        return None
    if isinstance(a, bytes) and isinstance(b, bytes):
        return a == b
    if a is None or b is None:
        return a is b
    for kind in (list, tuple):
        if isinstance(a, kind) and isinstance(b, kind):
            if len(a) != len(b):
                return False
            rs = [ref_equal(x, y, exact, delta) for x, y in zip(a, b)]
            if any(r is False for r in rs):
                return False
            return True if all(r is True for r in rs) else None
    if isinstance(a, dict) and isinstance(b, dict):
        if set(a) != set(b):
            return None if any(isinstance(k, (str, float)) for k in list(a) + list(b)) else False
        rs = [ref_equal(a[k], b[k], exact, delta) for k in a]
        if any(r is False for r in rs):
            return False
        return True if all(r is True for r in rs) else None
    if isinstance(a, (set, frozenset)) and isinstance(b, (set, frozenset)):
        if type(a) is not type(b):
            return None        # set against frozenset: the statement does not say whether these are the same kind
        if len(a) != len(b):
            return False
        la, lb = list(a), list(b)
        if len(la) > 3:
            return True if a == b else None
        import itertools
        best = False
        for perm in itertools.permutations(lb):
            rs = [ref_equal(x, y, exact, delta) for x, y in zip(la, perm)]
            if all(r is True for r in rs):
                return True
            if all(r is not False for r in rs):
                best = None
        return best
    if isinstance(a, Card) or isinstance(b, Card):
        # a dataclass instance equals exactly what its generated __eq__ says (same class, same fields)
        return bool(a == b)
    kinds = (str, bytes, list, tuple, dict, set, frozenset, int, float, complex)
    ka = [k for k in kinds if isinstance(a, k)]
    kb = [k for k in kinds if isinstance(b, k)]
    if ka and kb and ka[0] is not kb[0] and not (_is_num(a) and _is_num(b)):
        return False
    if type(a) is type(b):
        try:
            return True if a == b else None
        except Exception:
            return None
    return None


def holds(fn, *args):
    try:
        return bool(fn(*args)), True
    except Exception:
        return False, False


BINARY = {
    'assert_less': operator.lt, 'assert_less_equal': operator.le, 'assert_greater': operator.gt,
    'assert_greater_equal': operator.ge,
    'assert_in': lambda a, b: a in b, 'assert_not_in': lambda a, b: a not in b,
    'assert_contains_subset': lambda a, b: all(x in b for x in a),
    'assert_not_contains_subset': lambda a, b: not all(x in b for x in a),
    'assert_is': lambda a, b: a is b, 'assert_is_not': lambda a, b: a is not b,
    'assert_length_equal': lambda a, b: len(a) == b, 'assert_length_not_equal': lambda a, b: len(a) != b,
    'assert_length_less': lambda a, b: len(a) < b, 'assert_length_less_equal': lambda a, b: len(a) <= b,
    'assert_length_greater': lambda a, b: len(a) > b, 'assert_length_greater_equal': lambda a, b: len(a) >= b,
}
COMPLEMENT = {'assert_less': 'assert_greater_equal', 'assert_less_equal': 'assert_greater',
              'assert_in': 'assert_not_in', 'assert_contains_subset': 'assert_not_contains_subset',
              'assert_is': 'assert_is_not', 'assert_length_equal': 'assert_length_not_equal',
              'assert_length_less': 'assert_length_greater_equal', 'assert_length_less_equal': 'assert_length_greater',
              'assert_equal': 'assert_not_equal', 'assert_true': 'assert_false', 'assert_is_none': 'assert_is_not_none',
              'assert_is_instance': 'assert_not_is_instance', 'assert_regex': 'assert_not_regex'}
UNARY = {'assert_true': bool, 'assert_false': lambda v: not v, 'assert_is_none': lambda v: v is None,
         'assert_is_not_none': lambda v: v is not None}
WRAPS = [(False, False), (True, False), (False, True), (True, True)]


def _call(name, *args, **kw):
    try:
        return getattr(R, name)(*args, **kw), None
    except Exception as e:
        return None, e


def _judge(ctx, name, fb, exc, want_silent, case, evaluable, any_error):
    if exc is not None:
        ctx.fail({'symptom': 'assertion raised into the instructor script', 'assertion': name,
                  'exception': type(exc).__name__}, case=case, message=str(exc)[:200])
        return None
    got = silent(fb)
    ctx.outcome('%s/%s' % ('holds' if want_silent else 'not', 'silent' if got else 'fires'))
    if got != want_silent:
        why = 'error operand' if any_error else ('relation cannot be evaluated' if not evaluable else 'evaluable')
        ctx.fail({'symptom': 'passes although the relation does not hold' if got else 'fails although the relation holds',
                  'assertion': name, 'operands': why}, case=case, status=getattr(fb, '_status', None))
    return got


def make_binary(values):
    names = list(BINARY) + ['assert_equal', 'assert_not_equal']
    specs = [VALUES.index(v) if True else None for v in values]
    specs = [i for i, v in enumerate(VALUES) if any(v is w or (type(v) is type(w) and repr(v) == repr(w)) for w in values)]
    specs = specs + SPECIAL

    def body(ctx):
        name = names[ctx.choose(len(names), 'assertion')]
        ls = specs[ctx.choose(len(specs), 'left')]
        rs = specs[ctx.choose(len(specs), 'right')]
        wl, wr = WRAPS[ctx.choose(4, 'wrapping')]
        _trim()
        lo, lv, le = operand(ls, wl)
        ro, rv, re_ = operand(rs, wr)
        case = {'assertion': name, 'left': repr(lv) if not le else '<error from call("boom")>',
                'right': repr(rv) if not re_ else '<error from call("boom")>', 'left_proxied': wl, 'right_proxied': wr}
        canon = repr((name, ls, rs, wl, wr))
        ctx.observe(canon)
        ctx.set_sample(case)
        any_error = le or re_
        ctx.step(name)
        fb, exc = _call(name, lo, ro)
        if name in ('assert_equal', 'assert_not_equal'):
            if any_error:
                want = False
                ref = 'error'
            else:
                ref = ref_equal(lv, rv)
                if ref is None:
                    ctx.abstain()
                    # still: order independence
                    fb2, exc2 = _call(name, ro, lo)
                    if exc is None and exc2 is None and silent(fb) != silent(fb2):
                        ctx.fail({'symptom': 'verdict depends on argument order', 'assertion': name}, case=case)
                    return
                want = ref if name == 'assert_equal' else not ref
            if wl or wr or any_error or (lv != rv if not any_error else True):
                ctx.mark_nontrivial(canon)
            got = _judge(ctx, name, fb, exc, want, case, True, any_error)
            fb2, exc2 = _call(name, ro, lo)
            if got is not None and exc2 is None and silent(fb2) != got:
                ctx.fail({'symptom': 'verdict depends on argument order', 'assertion': name}, case=case)
            return
        if any_error:
            h, ev = False, False
        else:
            h, ev = holds(BINARY[name], lv, rv)
        if wl or wr or any_error or not ev:
            ctx.mark_nontrivial(canon)
        got = _judge(ctx, name, fb, exc, h, case, ev, any_error)
        comp = COMPLEMENT.get(name)
        if comp and ev and not any_error and got is not None:
            # the counterpart is the negation only where exactly one of the two Python relations holds
            # (for partial orders - sets, nan - both can be false, and then both assertions must fail)
            h2, ev2 = holds(BINARY[comp], lv, rv)
            if not ev2 or h2 == h:
                return
            fb2, exc2 = _call(comp, lo, ro)
            if exc2 is None and silent(fb2) == got:
                ctx.fail({'symptom': 'assertion and its negation both ' + ('pass' if got else 'fail'),
                          'assertion': name}, case=case)
    return body


OPT_VALUES = [1, 1.0005, 1.05, 1.2, 'a', 'A', 'a!', 'Hello, World', 'hello world', ['a', 1.05], ['A', 1], {'Apple'}, {'apple'},
              {'k': 'A'}, {'k': 'a'}, ('a!', 1.0005), ('a', 1), [{'Apple'}], [{'apple'}], {1.05}, {1}]
OPTIONS = [dict(exact_strings=True), dict(delta=0.1), dict(delta=1e-9), dict(exact_strings=True, delta=0.1), dict(),
           # options that only concern the wording of the feedback: the verdict must not depend on them
           dict(explanation='because'), dict(context=False), dict(assertion='custom wording'),
           dict(explanation='because', exact_strings=True)]


def body_options(ctx):
    """assert_equal / assert_not_equal with exact_strings and delta options, at every nesting level"""
    name = ('assert_equal', 'assert_not_equal')[ctx.choose(2, 'assertion')]
    li = ctx.choose(len(OPT_VALUES), 'left')
    ri = ctx.choose(len(OPT_VALUES), 'right')
    opt = OPTIONS[ctx.choose(len(OPTIONS), 'options')]
    wl, wr = WRAPS[ctx.choose(4, 'wrapping')]
    _trim()
    lv, rv = OPT_VALUES[li], OPT_VALUES[ri]
    key_l, key_r = ('opt', li), ('opt', ri)
    for key, v, w in ((key_l, lv, wl), (key_r, rv, wr)):
        if w and key not in TYPE_P:
            TYPE_P[key] = sb_cmds.call('identity', v)
    lo = TYPE_P[key_l] if wl else lv
    ro = TYPE_P[key_r] if wr else rv
    case = {'assertion': name, 'left': repr(lv), 'right': repr(rv), 'options': opt, 'left_proxied': wl, 'right_proxied': wr}
    canon = repr((name, li, ri, sorted(opt.items()), wl, wr))
    ctx.observe(canon)
    ctx.set_sample(case)
    ctx.mark_nontrivial(canon)
    ref = ref_equal(lv, rv, opt.get('exact_strings', False), opt.get('delta', DELTA))
    ctx.step(name)
    fb, exc = _call(name, lo, ro, **opt)
    if ref is None:
        ctx.abstain()
        fb2, exc2 = _call(name, ro, lo, **opt)
        if exc is None and exc2 is None and silent(fb) != silent(fb2):
            ctx.fail({'symptom': 'verdict depends on argument order', 'assertion': name, 'options': sorted(opt)}, case=case)
        return
    want = ref if name == 'assert_equal' else not ref
    got = _judge(ctx, name + ''.join('+' + k for k in sorted(opt)), fb, exc, want, case, True, False)


def body_unary(ctx):
    names = list(UNARY)
    specs = list(range(len(VALUES))) + SPECIAL
    name = names[ctx.choose(len(names), 'assertion')]
    s = specs[ctx.choose(len(specs), 'operand')]
    w = bool(ctx.choose(2, 'proxied'))
    _trim()
    o, v, e = operand(s, w)
    case = {'assertion': name, 'operand': repr(v) if not e else '<error>', 'proxied': w}
    ctx.observe(repr((name, s, w)))
    ctx.set_sample(case)
    ctx.mark_nontrivial(repr((name, s, w)))
    h, ev = (False, False) if e else holds(UNARY[name], v)
    ctx.step(name)
    fb, exc = _call(name, o)
    got = _judge(ctx, name, fb, exc, h, case, ev, e)
    comp = COMPLEMENT.get(name)
    if comp and ev and not e and got is not None:
        fb2, exc2 = _call(comp, o)
        if exc2 is None and silent(fb2) == got:
            ctx.fail({'symptom': 'assertion and its negation both ' + ('pass' if got else 'fail'), 'assertion': name}, case=case)


def body_instance(ctx):
    specs = list(range(len(VALUES))) + SPECIAL
    name = ('assert_is_instance', 'assert_not_is_instance', 'assert_type', 'assert_not_type')[ctx.choose(4, 'assertion')]
    s = specs[ctx.choose(len(specs), 'operand')]
    t = TYPES[ctx.choose(len(TYPES), 'type')]
    w = bool(ctx.choose(2, 'proxied'))
    _trim()
    o, v, e = operand(s, w)
    case = {'assertion': name, 'operand': repr(v) if not e else '<error>', 'type': t.__name__, 'proxied': w}
    ctx.observe(repr((name, s, t.__name__, w)))
    ctx.set_sample(case)
    ctx.mark_nontrivial(repr((name, s, t.__name__, w)))
    if name.endswith('instance'):
        h = (not e) and isinstance(v, t)
        if name.startswith('assert_not'):
            h = (not e) and not isinstance(v, t)
    else:
        # pedal types: judge only unambiguous pairs
        if e:
            h = False
        elif s == '<opaque>' or isinstance(v, bool) or t is bool or (isinstance(v, (int, float)) and t in (int, float)) \
                or isinstance(v, (set, frozenset)) or t is type(None) or v is None or isinstance(v, Card):
            # (Card: an instance of a class the student's namespace does not define has no pedal type to speak of)
            ctx.abstain()
            return
        else:
            h = isinstance(v, t)
            if name == 'assert_not_type':
                h = not h
    ctx.step(name)
    fb, exc = _call(name, o, t)
    tower = (not e) and name.endswith('instance') and isinstance(v, (int, float)) and t in (int, float) and not isinstance(v, t)
    if tower:
        # pedal deliberately treats int and float as interchangeable in assert_is_instance; judged separately
        got = silent(fb) if exc is None else None
        if got is not None and got != h:
            ctx.fail({'symptom': 'int/float treated as interchangeable by assert_is_instance', 'assertion': name},
                     case=case)
        return
    _judge(ctx, name, fb, exc, h, case, True, e)


def body_regex(ctx):
    name = ('assert_regex', 'assert_not_regex')[ctx.choose(2, 'assertion')]
    rx = REGEXES[ctx.choose(len(REGEXES), 'regex')]
    tx = TEXTS[ctx.choose(len(TEXTS), 'text')]
    w = bool(ctx.choose(2, 'text-proxied'))
    wp = bool(ctx.choose(2, 'pattern-proxied'))
    expl = bool(ctx.choose(2, 'with-explanation'))
    _trim()
    key = ('text', tx)
    if w and key not in TYPE_P:
        TYPE_P[key] = sb_cmds.call('identity', tx)
    o = TYPE_P[key] if w else tx
    pkey = ('pattern', rx)
    if wp and pkey not in TYPE_P:
        TYPE_P[pkey] = sb_cmds.call('identity', rx)
    case = {'assertion': name, 'regex': rx, 'text': tx, 'proxied': w, 'pattern_proxied': wp, 'explanation': expl}
    ctx.observe(repr((name, rx, tx, w, wp, expl)))
    ctx.set_sample(case)
    ctx.mark_nontrivial(repr((name, rx, tx, w, wp, expl)))
    h, ev = holds(lambda: re.search(rx, tx) is not None)
    if name == 'assert_not_regex':
        h = ev and not h
    ctx.step(name)
    rxo = TYPE_P[pkey] if wp else rx
    fb, exc = _call(name, rxo, o, **({'explanation': 'because'} if expl else {}))
    got = _judge(ctx, name, fb, exc, h, case, ev, False)
    if ev and got is not None and name == 'assert_regex':
        fb2, exc2 = _call('assert_not_regex', rxo, o)
        if exc2 is None and silent(fb2) == got:
            ctx.fail({'symptom': 'assertion and its negation both ' + ('pass' if got else 'fail'), 'assertion': name}, case=case)


def body_output(ctx):
    names = ['assert_output', 'assert_not_output', 'assert_output_contains', 'assert_not_output_contains',
             'assert_prints']
    name = names[ctx.choose(len(names), 'assertion')]
    pn = list(PRINTERS)[ctx.choose(len(PRINTERS), 'printer')]
    tx = OUT_TEXTS[ctx.choose(len(OUT_TEXTS), 'text')]
    exact = bool(ctx.choose(2, 'exact_strings'))
    use_err = ctx.choose(6, 'execution-is-error') == 5
    # where the assertion is made: on a result obtained earlier (other calls followed), or inside an instructor's
    # CommandBlock right after the call / after one more call in the same block
    where = ('earlier result', 'block: right after the call', 'block: after a later call')[ctx.choose(3, 'asserted-where')]
    _trim()
    printed = PRINTERS[pn]
    body = printed[:-1] if printed.endswith("\n") else printed
    case = {'assertion': name, 'printer': pn, 'printed': printed, 'text': tx, 'exact_strings': exact, 'error_execution': use_err}
    ctx.observe(repr((name, pn, tx, exact, use_err, where)))
    ctx.set_sample(case)
    ctx.mark_nontrivial(repr((name, pn, tx, exact, use_err, where)))
    # reference: only clear-cut cases
    if 'contains' in name:
        if exact:
            rel = tx in body
        elif tx.lower() in body.lower():
            rel = True
        elif not set(c for c in tx.lower() if c.isalnum()) <= set(c for c in body.lower() if c.isalnum()):
            rel = False
        else:
            rel = None
    else:
        if exact:
            # exactly the printed text, the final newline that print() adds being optional; anything else -- also a
            # difference in blank lines or spaces only -- is not equal under exact_strings
            rel = True if printed in (tx, tx + "\n") else (False if printed.rstrip("\n") != tx.rstrip("\n") or
                                                           len(printed) - len(printed.rstrip("\n")) >
                                                           len(tx) - len(tx.rstrip("\n")) + 1 else None)
        elif _norm(body) == _norm(tx):
            rel = True if (body.strip() or not tx.strip()) else None
        elif sorted(c for c in body.lower() if c.isalnum()) != sorted(c for c in tx.lower() if c.isalnum()):
            rel = False
        else:
            rel = None
    case['asserted'] = where
    if where == 'earlier result' or use_err:
        ex = ERR if use_err else PRINT_P[pn]
        ctx.step(name)
        fb, exc = _call(name, ex, tx, exact_strings=exact)
    else:
        with sb_cmds.CommandBlock():
            ex = sb_cmds.call(pn)
            if where.endswith('later call'):
                sb_cmds.call('p_num' if pn != 'p_num' else 'p_hello')
            ctx.step(name)
            fb, exc = _call(name, ex, tx, exact_strings=exact)
    if use_err:
        _judge(ctx, name, fb, exc, False, case, False, True)
        return
    if rel is None:
        ctx.abstain()
        return
    want = rel if 'not_' not in name else not rel
    _judge(ctx, name, fb, exc, want, case, True, False)


OWN_ASSERTS = [('assert_equal', 3, 3), ('assert_equal', 3, 4), ('assert_not_equal', 3, 3), ('assert_less', 3, 4),
               ('assert_less', 4, 3), ('assert_in', 3, [3]), ('assert_in', 5, [3]), ('assert_is_none', None, None),
               ('assert_true', 0, None), ('assert_length_equal', [1, 2], 2), ('assert_length_equal', [1, 2], 3),
               ('assert_is_instance', 3, int), ('assert_is_instance', 'a', int)]


LATER_DEFS = {'run-more-code': "def later(x):\n    return x * 2\n",
              'second-section': None, 'redefined': "def identity(x):\n    return [x]\n"}


def body_later(ctx):
    """A student function that only exists after the first call() was made (more code run, the next section of a
    sectioned file, a redefinition): assertions about its calls judge what it really returns."""
    how = list(LATER_DEFS)[ctx.choose(len(LATER_DEFS), 'how-defined')]
    vi = ctx.choose(4, 'value')
    v = [3, 'ab', [1], 2.5][vi]
    first_call = bool(ctx.choose(2, 'a-call-was-made-before'))
    cmds.clear_report()
    if how == 'second-section':
        from pedal.source.sections import separate_into_sections, next_section
        cmds.contextualize_report("def identity(x):\n    return x\n##### Part 1\ndef later(x):\n    return x * 2\n")
        separate_into_sections()
        sb_cmds.run()
    else:
        cmds.contextualize_report(STUDENT)
        sb_cmds.run()
    if first_call:
        sb_cmds.call('identity', 1)
    ctx.step(how)
    if how == 'second-section':
        next_section()
        sb_cmds.run()
    else:
        sb_cmds.run(LATER_DEFS[how])
    fn = 'identity' if how == 'redefined' else 'later'
    want = [v] if how == 'redefined' else v * 2
    case = {'defined_by': how, 'function': fn, 'argument': repr(v), 'call_before': first_call}
    ctx.observe(repr(case))
    ctx.set_sample(case)
    ctx.mark_nontrivial(repr(case))
    try:
        res = sb_cmds.call(fn, v)
        ok = silent(R.assert_equal(res, want))
        res2 = sb_cmds.call(fn, v)
        nok = silent(R.assert_not_equal(res2, want))
    except Exception as e:
        ctx.fail({'symptom': 'assertion on a later-defined function raised', 'exception': type(e).__name__}, case=case)
        return
    finally:
        _fresh()
    if not ok or nok:
        ctx.fail({'symptom': 'assertion about a function defined after the first call judges something else',
                  'equal_passes': ok, 'not_equal_passes': nok}, case=case, returned=repr(unwrap_value(res))[:60], want=repr(want))
    ctx.outcome('later-ok')


def body_own_report(ctx):
    """Assertions addressed to a Report of the caller's own (report= on the calls and on the assertion): the failing
    feedback lands there and only there, and the verdict is the same."""
    from pedal.core.report import Report
    name, a, b = OWN_ASSERTS[ctx.choose(len(OWN_ASSERTS), 'assertion')]
    wrap = ctx.choose(2, 'left-proxied')
    case = {'assertion': name, 'left': repr(a), 'right': repr(b), 'proxied': bool(wrap), 'report': 'own'}
    ctx.observe(repr(case))
    ctx.set_sample(case)
    ctx.mark_nontrivial(repr(case))
    _trim()
    mine = Report()
    cmds.contextualize_report(STUDENT, report=mine)
    sb_cmds.run(report=mine)
    left = sb_cmds.call('identity', a, report=mine) if wrap else a
    g0 = (len(MAIN_REPORT.feedback), len(MAIN_REPORT.ignored_feedback))
    args = (left,) if name in ('assert_is_none', 'assert_true') else (left, b)
    import operator
    rel = {'assert_equal': lambda: a == b, 'assert_not_equal': lambda: a != b, 'assert_less': lambda: a < b,
           'assert_in': lambda: a in b, 'assert_is_none': lambda: a is None, 'assert_true': lambda: bool(a),
           'assert_length_equal': lambda: len(a) == b, 'assert_is_instance': lambda: isinstance(a, b)}[name]()
    ctx.step(name + '(report=own)')
    try:
        fb = getattr(R, name)(*args, report=mine)
    except Exception as e:
        ctx.fail({'symptom': 'assertion with report=own raised', 'assertion': name, 'exception': type(e).__name__}, case=case,
                 message=str(e)[:200])
        return
    fired = bool(fb)
    on_mine = any(f is fb for f in mine.feedback)
    if fired == rel:
        ctx.fail({'symptom': 'assertion on an own report has the wrong verdict', 'assertion': name}, case=case, fired=fired)
    if fired and not on_mine:
        ctx.fail({'symptom': 'failing assertion is not recorded on the own report', 'assertion': name}, case=case)
    if (len(MAIN_REPORT.feedback), len(MAIN_REPORT.ignored_feedback)) != g0:
        ctx.fail({'symptom': 'assertion with report=own recorded something on the global report', 'assertion': name}, case=case)
    ctx.outcome('own:%s' % ('fires' if fired else 'silent'))


def bounds(tier):
    return {'binary_assertions': len(BINARY) + 2, 'values': len(CORE if tier == 'quick' else VALUES) + 2,
            'wrappings': 4, 'unary_assertions': len(UNARY), 'types': len(TYPES), 'regexes': len(REGEXES),
            'texts': len(TEXTS), 'printers': len(PRINTERS), 'output_texts': len(OUT_TEXTS)}


def phases(tier):
    from checks import c03
    vals = CORE if tier == 'quick' else VALUES
    return [
        Phase('binary', make_binary(vals), setup=_setup, chunk=400, describe='binary assertion x left x right x wrapping'),
        Phase('equality-options', body_options, setup=_setup, chunk=400,
              describe='assert_equal/assert_not_equal x exact_strings/delta options x nested values x wrapping'),
        Phase('unary', body_unary, setup=_setup, chunk=200, describe='truthiness / None-ness x value x wrapping'),
        Phase('instance-type', body_instance, setup=_setup, chunk=200, describe='instance/type assertions x value x type'),
        Phase('regex', body_regex, setup=_setup, chunk=100, describe='regex assertions x pattern x text'),
        Phase('later-defined', body_later, setup=_setup, chunk=10,
              describe='assertions about a function that exists only after the first call() (more code, next section, redefinition)'),
        Phase('own-report', body_own_report, setup=_setup, chunk=100,
              describe='assertions addressed to a caller-owned Report (calls and assertion with report=)'),
        Phase('output', body_output, setup=_setup, chunk=100, describe='output assertions x printing function x text'),
        Phase('unit_test', c03.body_unit_test, setup=c03._setup, describe='unit_test() pass/fail/error patterns'),
    ]
