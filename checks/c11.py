"""C11 -- CAIT finds every occurrence that exists by construction.

Driver B: programs over a statement alphabet; for each program every pattern derivable
from it by the generalisation steps (whole program, each statement, sub-expressions ->
___ / __expr__, identifiers -> _var_ placeholders, dropped siblings, compositions).
Oracle: find_matches returns >= 1 match and one match binds each placeholder to what it
replaced.  Plus histories where the searched code is passed explicitly.
"""
import ast
from mc.explore import Phase
from checks import cait_common as cc

PROPERTY = 'C11'
RULE = ('a case is (student program, derived pattern); non-trivial = the pattern contains at least one placeholder or '
        'drops a statement (i.e. it is not the literal program); distinct by (program, pattern)')
ASSUMPTIONS = ['patterns are derived textually with ast.unparse from re-parsed trees (never deep-copied)',
               'a placeholder standing as a whole statement may be bound to the expression or to its expression statement',
               'monotonicity is implied: every one-step generalisation of a derived pattern is itself a derived pattern and is required to match']
EXPLANATION = 'bounded-exhaustive programs x all derived patterns on the real find_matches; oracle = construction'


CALL_CHAIN = ["draw(10)", "move(5)", "draw(20)", "move(x)", "turn(x, 5)", "pen.down()"]


def _setup():
    global cmds, find_matches, set_source, verify
    import importlib
    cmds = importlib.import_module('pedal.core.commands')
    from pedal.cait.cait_api import find_matches
    from pedal.source import set_source, verify


_CACHE = {}


def _derived(code, thorough, chain):
    key = (code, thorough, chain)
    if key not in _CACHE:
        if len(_CACHE) > 3000:
            _CACHE.clear()
        _CACHE[key] = cc.derive(code, thorough, chain)
    return _CACHE[key]


def judge(ctx, code, pat, what, exp, explicit=False):
    ctx.step('find_matches')
    try:
        ms = find_matches(pat, code) if explicit else find_matches(pat)
    except Exception as e:
        ctx.fail({'symptom': 'find_matches raised', 'exception': type(e).__name__, 'derivation': what}, program=code,
                 pattern=pat, message=str(e)[:200])
        return
    if what not in ('whole', 'statement'):
        ctx.mark_nontrivial(code + '|' + pat)
    ctx.outcome(what)
    if not ms:
        ctx.fail({'symptom': 'pattern derived from the program does not match', 'derivation': what,
                  'explicit_code': explicit}, program=code, pattern=pat)
        return
    if exp and not any(cc.binding_ok(m, exp) for m in ms):
        got = []
        for m in ms[:3]:
            try:
                got.append({k: v.id for k, v in m.symbol_table.items()})
            except Exception:
                got.append('?')
        ctx.fail({'symptom': 'no match binds the placeholders to what they replaced', 'derivation': what},
                 program=code, pattern=pat, expected={k: v[1][:60] for k, v in exp.items()}, got=got)


def make_body(stms, max_len, second_pool, thorough=False, chain=False):
    def body(ctx):
        n = ctx.choose(max_len, 'n') + 1
        idx = [ctx.choose(len(stms) if i == 0 else min(second_pool, len(stms)), 's%d' % i) for i in range(n)]
        code = "\n".join(stms[i] for i in idx) + "\n"
        ders = _derived(code, thorough, chain)
        di = ctx.choose(len(ders), 'derivation')
        pat, what, exp = ders[di]
        ctx.observe(code + '|' + pat)
        ctx.set_sample({'program': code, 'pattern': pat, 'derivation': what})
        cmds.clear_report()
        cmds.contextualize_report(code)
        judge(ctx, code, pat, what, exp)
    return body


def make_explicit(stms, pool):
    """The searched code is given explicitly while another submission is loaded."""
    def body(ctx):
        qi = ctx.choose(pool, 'loaded-submission')
        pi = ctx.choose(pool, 'searched-program')
        how = ctx.choose(3, 'how-loaded')
        Q = stms[qi] + "\n"
        P = stms[pi] + "\n"
        ders = _derived(P, False, False)
        di = ctx.choose(len(ders), 'derivation')
        pat, what, exp = ders[di]
        ctx.observe(repr((Q, P, pat, how)))
        ctx.set_sample({'loaded': Q, 'searched': P, 'pattern': pat, 'how': how})
        cmds.clear_report()
        if how == 0:
            cmds.contextualize_report(Q)
        elif how == 1:
            cmds.contextualize_report(Q)
            verify()
        else:
            set_source(Q)
        ctx.step(('load', how))
        find_matches('___')       # warm whatever caches exist for the loaded submission
        judge(ctx, P, pat, what, exp, explicit=True)
        # ... and again after code that does not parse was searched: what was found before is found again
        if not ctx.fails:
            try:
                find_matches('___', P + "oops = (\n")
            except Exception as e:
                ctx.fail({'symptom': 'find_matches raised on code that does not parse', 'exception': type(e).__name__}, program=P)
            judge(ctx, P, pat, what, exp, explicit=True)
            for sig, det in ctx.fails:
                sig.setdefault('after', 'a search in code that does not parse')
        # and the loaded submission is still searched by default afterwards
        try:
            if not find_matches(Q):
                ctx.fail({'symptom': 'loaded submission no longer matches itself after an explicit-code search'},
                         loaded=Q, searched=P)
        except Exception as e:
            ctx.fail({'symptom': 'find_matches raised', 'exception': type(e).__name__, 'derivation': 'whole'}, program=Q)
    return body


def make_after_failed_parse(stms, pool):
    """CAIT's last parse failed (a text with a typo was searched); then the program is loaded and verified by the
    Source tool and searched twice: what exists by construction is found both times."""
    def body(ctx):
        pi = ctx.choose(pool, 'program')
        how = ('set_source', 'contextualize+verify', 'next section')[ctx.choose(3, 'how-loaded')]
        P = stms[pi] + "\n"
        ders = _derived(P, False, False)
        di = ctx.choose(len(ders), 'derivation')
        pat, what, exp = ders[di]
        ctx.observe(repr((P, pat, how)))
        ctx.set_sample({'program': P, 'pattern': pat, 'how': how})
        cmds.clear_report()
        if how == 'next section':
            from pedal.source.sections import separate_into_sections, next_section
            cmds.contextualize_report("oops = (\n##### Part 1\n" + P)
            separate_into_sections(independent=True)
            verify()
            find_matches('___')
            next_section()
            verify()
            P2 = "\n" + P
        else:
            cmds.contextualize_report("oops = (\n")
            find_matches('___')
            if how == 'set_source':
                set_source(P)
            else:
                cmds.clear_report()
                cmds.contextualize_report(P)
                verify()
            P2 = P
        ctx.step(('loaded', how))
        for again in (False, True):
            n0 = len(ctx.fails)
            judge(ctx, P2, pat, what, exp)
            for sig, det in ctx.fails[n0:]:
                sig['after'] = 'a failed parse, text verified by the Source tool' + (', second search' if again else '')
            if ctx.fails:
                break
    return body


WARM_OUTER = ["for _i_ in __e__:\n    ___", "_t_ = __e__", "print(__e__)", "if __e__:\n    ___", "while __e__:\n    ___",
              "_t_ = _f_(__e__, ___)", "___ = ___ + __e__"]
WARM_INNER = ["range(___)", "___ + ___", "_v_", "___[___]", "___ < ___", "_t_ + ___", "_i_", "_t_"]


def make_after_submatch(stms, pool):
    """Histories on one loaded submission: first an instructor-style two-level search (a pattern, then a sub-pattern
    below the node bound to __e__, as CAIT's documentation recommends), then the by-construction patterns.  What was
    findable before other searches is findable after them: searching must not alter the (cached) student tree."""
    def body(ctx):
        n = ctx.choose(2, 'n') + 1
        idx = [ctx.choose(len(stms) if i == 0 else min(pool, len(stms)), 's%d' % i) for i in range(n)]
        code = "\n".join(stms[i] for i in idx) + "\n"
        outer = WARM_OUTER[ctx.choose(len(WARM_OUTER), 'outer')]
        inner = WARM_INNER[ctx.choose(len(WARM_INNER), 'inner')]
        ders = _derived(code, False, False)
        di = ctx.choose(len(ders), 'derivation')
        pat, what, exp = ders[di]
        ctx.observe('|'.join((code, outer, inner, pat)))
        ctx.set_sample({'program': code, 'warm_up': [outer, inner], 'pattern': pat, 'derivation': what})
        cmds.clear_report()
        cmds.contextualize_report(code)
        ctx.step(('two-level search', outer, inner))
        subs = 0
        try:
            for m in find_matches(outer):
                node = m['__e__']
                found = node.find_matches(inner)
                subs += 1 + len(found)
                # every way of asking whether the sub-pattern occurs gives the same answer: the plural and the
                # singular call, continuing the earlier match or not
                for prev in (True, False):
                    plural = node.find_matches(inner, use_previous=prev)
                    single = node.find_match(inner, use_previous=prev)
                    if (single is None) != (len(plural) == 0):
                        ctx.fail({'symptom': 'find_match() misses (or invents) an occurrence that find_matches() reports',
                                  'use_previous': prev}, program=code, outer=outer, inner=inner, plural=len(plural),
                                 singular=single is not None)
        except Exception as e:
            ctx.fail({'symptom': 'two-level search raised', 'exception': type(e).__name__}, program=code, outer=outer,
                     inner=inner, message=str(e)[:200])
            return
        if not subs:
            ctx.abstain()
            return
        judge(ctx, code, pat, what, exp)
        for sig, det in ctx.fails:
            sig['after'] = 'two-level search'
            det['warm_up'] = [outer, inner]
    return body


def _setup2():
    _setup()
    from checks import c10
    c10._setup()


def _two_questions():
    from checks import c10
    return c10.body_two_questions


def bounds(tier):
    return {'statements': len(cc.STM), 'max_statements': 2, 'second_statement_pool': 12 if tier == 'quick' else len(cc.STM),
            'derivations': 'whole, each statement, each expression -> ___/__e__, each identifier -> _v_, all identifiers '
                           '-> own placeholders, each dropped sibling' + ('; pairs of positions, pairs of identifiers, '
                           'rename+wildcard' if tier == 'thorough' else ''),
            'chains': 'all programs of <=4 assignment statements over %d statements with drop+rename-all(+wildcard)' % len(cc.CHAIN),
            'explicit': 'loaded submission x explicitly searched program (first 14 statements) x 3 ways of loading'}


def phases(tier):
    th = tier == 'thorough'
    return [
        Phase('derived', make_body(cc.STM, 2, 12 if not th else len(cc.STM), thorough=th), setup=_setup, chunk=300,
              describe='programs of <=2 statements x every derived pattern'),
        Phase('assign-chains', make_body(cc.CHAIN, 4, len(cc.CHAIN), chain=True), setup=_setup, chunk=300,
              describe='programs of <=4 similar assignments x drop/rename-all/wildcard compositions'),
        Phase('call-chains', make_body(CALL_CHAIN[:5] if not th else CALL_CHAIN, 3 if not th else 4, len(CALL_CHAIN), chain=True),
              setup=_setup, chunk=300,
              describe='programs of <=3 (thorough: 4) similar call statements x drop/rename-all/wildcard compositions '
                       '(function placeholders)'),
        Phase('explicit-code', make_explicit(cc.STM, 14), setup=_setup, chunk=300,
              describe='find_matches(pattern, code) while another submission is loaded'),
        Phase('after-failed-parse', make_after_failed_parse(cc.STM, 14 if not th else len(cc.STM)), setup=_setup, chunk=300,
              describe='CAIT failed to parse an earlier text; the program is then verified by the Source tool and searched twice'),
        Phase('two-questions', _two_questions(), setup=_setup2, chunk=100,
              describe='match + look inside the bound node, twice, with the placeholder names used differently: nothing '
                       'that is found when asked alone is lost when asked second'),
        Phase('after-sub-match', make_after_submatch(cc.STM, 4 if not th else 12), setup=_setup, chunk=300,
              describe='every derived pattern again after a two-level search (pattern, then sub-pattern below __e__)'),
    ]
