"""C16 -- the result proxy is transparent for every operation that works on the real value.

Driver B: the full table operation x operand value classes x proxy placement, executed
on real SandboxResult proxies; oracle: CPython applying the same operation to the raw values.
"""
import contextlib
import io
import math
import operator
from mc.explore import Phase

PROPERTY = 'C16'
RULE = ('a case is (operation, operand value(s), proxy placement) applied to real SandboxResult proxies; non-trivial = '
        'the operation succeeds on the raw values (so an equal result is demanded) or the raw operation raises while '
        'a proxy is involved; distinct by (operation, operand classes and values, placement)')
ASSUMPTIONS = ['reference = the same operator/builtin applied by CPython to the raw values',
               'results are compared after unwrapping: equal type and equal value (NaN equals NaN)',
               'proxies are SandboxResult(value, context_id, sandbox) of a live sandbox, as call()/evaluate() build them']
EXPLANATION = 'exhaustive operator x operand-class x placement table on the real proxy class; oracle = CPython on raw values'


class Full:
    def __init__(s, v):
        s.v = v

    def _o(s, o):
        return o.v if isinstance(o, Full) else o

    def __add__(s, o): return Full(s.v + s._o(o))
    def __radd__(s, o): return Full(o + s.v)
    def __sub__(s, o): return Full(s.v - s._o(o))
    def __rsub__(s, o): return Full(o - s.v)
    def __mul__(s, o): return Full(s.v * s._o(o))
    def __rmul__(s, o): return Full(o * s.v)
    def __eq__(s, o): return isinstance(o, Full) and s.v == o.v
    def __lt__(s, o): return s.v < s._o(o)
    def __hash__(s): return hash(s.v)
    def __len__(s): return 3

    def __getitem__(s, i):
        if not isinstance(i, int) or not 0 <= i < 3:
            raise IndexError(i)
        return s.v + i

    def __contains__(s, x): return x == s.v
    def __bool__(s): return bool(s.v)
    def __int__(s): return int(s.v)
    def __float__(s): return float(s.v)
    def __repr__(s): return "Full(%r)" % (s.v,)


class NI:
    def __add__(s, o): return NotImplemented
    def __eq__(s, o): return NotImplemented
    def __hash__(s): return 7
    def __repr__(s): return "NI()"


class OnlyLt:
    def __init__(s, v): s.v = v
    def __lt__(s, o): return s.v < (o.v if isinstance(o, OnlyLt) else o)
    def __repr__(s): return "OnlyLt(%r)" % (s.v,)


class Coin:
    """a student class with an attribute literally named `value` (the proxy's own slot name)"""

    def __init__(s, value, name='dime'):
        s.value = value
        s.name = name

    def __eq__(s, o): return isinstance(o, Coin) and (s.value, s.name) == (o.value, o.name)
    def __hash__(s): return hash((s.value, s.name))
    def __add__(s, o): return Coin(s.value + (o.value if isinstance(o, Coin) else o), s.name)
    def __radd__(s, o): return Coin(o + s.value, s.name)
    def __lt__(s, o): return s.value < (o.value if isinstance(o, Coin) else o)
    def __bool__(s): return s.value > 5
    def __len__(s): return 2
    def __repr__(s): return "Coin(%r, %r)" % (s.value, s.name)


class Countdown:
    """a student class that can be iterated but has no length (list()/tuple()/sorted() ask for a length hint first)"""

    def __init__(s, n):
        s.n = n

    def __iter__(s):
        return iter(range(s.n, 0, -1))


VALS = {
    'int': [7, -2, 0], 'float': [2.5, float('nan'), -0.5], 'bool': [True, False], 'str': ['ab', '', '%d'],
    'list': [[1, 2], []], 'tuple': [(1, 2), ()], 'dict': [{'a': 1}, {'a': 2, 'b': 3}], 'set': [{1, 2}, {2, 3}],
    'none': [None], 'complex': [1 + 2j], 'full': [Full(3)], 'ni': [NI()], 'onlylt': [OnlyLt(1)], 'coin': [Coin(10), Coin(0)],
    'iteronly': [Countdown(3)],
}
MORE = {'int': [255, 1], 'float': [float('inf'), 1e-9], 'str': ['a b', 'AB'], 'list': [[[1], 'x'], [2, 1]], 'tuple': [(2,), ('a', 1)],
        'dict': [{}, {1: 'one'}], 'set': [set(), {'a'}], 'frozenset': [frozenset({1, 2})], 'bytes': [b'ab'], 'range': [range(3)],
        'full': [Full(0)], 'complex': [0j]}
THOROUGH_VALS = {k: list(v) + MORE.get(k, []) for k, v in VALS.items()}
for _k in MORE:
    THOROUGH_VALS.setdefault(_k, MORE[_k])
QUICK_VALS = {k: v[:2] if k in ('int', 'float', 'dict', 'set', 'str') else v[:1] for k, v in VALS.items()}

BIN = {n: getattr(operator, n) for n in ['add', 'sub', 'mul', 'truediv', 'floordiv', 'mod', 'pow', 'lshift', 'rshift',
                                         'and_', 'or_', 'xor', 'matmul', 'eq', 'ne', 'lt', 'le', 'gt', 'ge', 'getitem']}
BIN['divmod'] = divmod
BIN['contains_in_proxy'] = operator.contains

UN = {
    'len': len, 'iter': lambda v: list(iter(v)), 'hash': hash, 'bool': bool, 'str': str, 'repr': repr,
    'format': lambda v: format(v, ''), 'fmt_width': lambda v: "{:>5}".format(v), 'int': int, 'float': float,
    'complex': complex, 'round': round, 'round1': lambda v: round(v, 1), 'round0': lambda v: round(v, 0),
    'round_neg1': lambda v: round(v, -1), 'round_none': lambda v: round(v, None), 'trunc': math.trunc, 'floor': math.floor,
    'ceil': math.ceil, 'abs': abs, 'neg': operator.neg, 'pos': operator.pos, 'invert': operator.invert,
    'isinstance_int': lambda v: isinstance(v, int), 'isinstance_str': lambda v: isinstance(v, str),
    'isinstance_list': lambda v: isinstance(v, (list, tuple)), 'not': operator.not_,
    'reversed': lambda v: list(reversed(v)), 'sorted': sorted, 'sum': sum, 'index': operator.index,
    'list': list, 'tuple': tuple, 'max': max, 'getitem0': lambda v: v[0], 'slice': lambda v: v[0:1],
    'in_list': lambda v: v in [7, 'ab', None], 'dictkey': lambda v: {v: 1}[v], 'pedal_len': None,
}

# format specifications of every shape (fill/align, sign flags incl. the blank one, grouping, precision, types, and
# specifications the value rejects: trailing blank, tab)
for _spec in (' d', ' .2f', ' ', '+d', 'd ', '5 ', '\t', '08.3f', ',', '_', '>8', ' >8', '^9', '*<6', 's', 'x', '#b', '%', 'e', '05',
              '.3', 'c', 'n', '=+6'):
    UN['format:%r' % _spec] = (lambda v, _s=_spec: format(v, _s))
UN['fstring_blank_sign'] = lambda v: f"{v: d}|{v: .1f}"


def _setup():
    global SandboxResult, unwrap_value, sb, cmds, pedal_len
    import importlib
    cmds = importlib.import_module('pedal.core.commands')
    sb_cmds = importlib.import_module('pedal.sandbox.commands')
    from pedal.sandbox.result import SandboxResult, unwrap_value
    import pedal.sandbox.result as R
    pedal_len = R.len
    cmds.clear_report()
    cmds.contextualize_report("x=1")
    sb_cmds.run()
    sb = sb_cmds.get_sandbox()
    UN['pedal_len'] = lambda v: pedal_len(v)


def P(v):
    return SandboxResult(v, 0, sb)


def _deep_unwrap(v):
    for _ in range(5):       # a proxy of a proxy still behaves transparently
        w = unwrap_value(v)
        if w is v:
            break
        v = w
    return v


def same(a, b):
    a = _deep_unwrap(a)
    b = _deep_unwrap(b)
    try:
        if type(a) is not type(b):
            return False
        if isinstance(a, float) and a != a:
            return b != b
        if isinstance(a, (Full, OnlyLt)):
            return a.v == b.v or (a.v != a.v and b.v != b.v)
        if isinstance(a, Countdown):
            return a.n == b.n
        if isinstance(a, Coin):
            return repr((_deep_unwrap(a.value), a.name)) == repr((_deep_unwrap(b.value), b.name))
        return a == b or repr(a) == repr(b)
    except Exception:
        return False


def _apply(fn, *args):
    buf = io.StringIO()
    with contextlib.redirect_stdout(buf):
        try:
            return True, fn(*args), buf
        except RecursionError as e:
            return False, e, buf
        except Exception as e:
            return False, e, buf


def judge(ctx, op, classes, side, eok, exp, gok, got, buf, case):
    sig = None
    if buf.getvalue():
        sig = 'writes to standard output'
    elif gok and unwrap_value(got) is NotImplemented:
        sig = 'hands back NotImplemented'
    elif eok and not gok:
        sig = 'raises %s although the real value succeeds' % type(got).__name__
    elif not eok and gok:
        sig = 'succeeds although the real value raises'
    elif eok and gok and not same(got, exp):
        sig = 'different result'
    ctx.outcome(('ok' if eok else 'raises') + ('/ok' if gok else '/raises'))
    if sig:
        ctx.fail({'symptom': sig, 'op': op, 'proxy_side': side, 'operand_classes': classes,
                  'left_class': classes.split(',')[0]}, case=case,
                 expected=repr(exp)[:80] if eok else 'raises ' + type(exp).__name__,
                 got=repr(unwrap_value(got))[:80] if gok else repr(got)[:120], stdout=buf.getvalue()[:80])


def make_binary(vals):
    ops = list(BIN)
    classes = list(vals)

    def body(ctx):
        op = ops[ctx.choose(len(ops), 'op')]
        ca = classes[ctx.choose(len(classes), 'class_a')]
        a = vals[ca][ctx.choose(len(vals[ca]), 'value_a')]
        cb = classes[ctx.choose(len(classes), 'class_b')]
        b = vals[cb][ctx.choose(len(vals[cb]), 'value_b')]
        side = ('left', 'right', 'both')[ctx.choose(3, 'side')]
        if op == 'contains_in_proxy' and side == 'right':
            # membership *in the proxied container*: the container is the left operand of operator.contains
            return
        fn = BIN[op]
        eok, exp, _ = _apply(fn, a, b)
        x = P(a) if side in ('left', 'both') else a
        y = P(b) if side in ('right', 'both') else b
        ctx.step((op, side))
        gok, got, buf = _apply(fn, x, y)
        case = {'op': op, 'a': repr(a), 'b': repr(b), 'side': side}
        canon = repr((op, ca, repr(a), cb, repr(b), side))
        ctx.observe(canon)
        ctx.set_sample(case)
        ctx.mark_nontrivial(canon)
        judge(ctx, op, '%s,%s' % (ca, cb), side, eok, exp, gok, got, buf, case)
    return body


def make_unary(vals):
    ops = list(UN)
    classes = list(vals)

    def body(ctx):
        op = ops[ctx.choose(len(ops), 'op')]
        ca = classes[ctx.choose(len(classes), 'class')]
        a = vals[ca][ctx.choose(len(vals[ca]), 'value')]
        wrapped = bool(ctx.choose(2, 'proxied')) if op == 'pedal_len' else True
        fn = UN[op]
        ref = len if op == 'pedal_len' else fn
        eok, exp, _ = _apply(ref, a)
        ctx.step((op,))
        gok, got, buf = _apply(fn, P(a) if wrapped else a)
        case = {'op': op, 'a': repr(a), 'proxied': wrapped}
        canon = repr((op, ca, repr(a), wrapped))
        ctx.observe(canon)
        ctx.set_sample(case)
        ctx.mark_nontrivial(canon)
        judge(ctx, op, ca, 'operand' if wrapped else 'raw', eok, exp, gok, got, buf, case)
    return body


SEQ_VALUES = [[1, 2], {'k': 1}, {1, 2}, [[1], [2]], 'ab', 7, (1, 2)]
SEQ_STEPS = ['repr', 'str', 'mutate', 'len', 'add-one', 'index0', 'proxying-switched-off', 'equal-copy']


def _seq_step(step, x, fresh):
    if step == 'repr':
        return (repr(x), '%r' % (x,), f'{x!r}')
    if step == 'str':
        return str(x)
    if step == 'mutate':
        if isinstance(x, list):
            x.append(5)
        elif isinstance(x, dict):
            x['zz'] = 1
        elif isinstance(x, set):
            x.add(99)
        return None
    if step == 'len':
        return len(x)
    if step == 'add-one':
        return x + (x if not isinstance(x, (int, dict, set)) else 1)
    if step == 'index0':
        return x[0]
    if step == 'equal-copy':
        return x == fresh
    return None


def body_sequences(ctx):
    """Several operations in a row on one result (it may be looked at, changed through itself, looked at again), and
    the sandbox's proxying may be switched off after the result was fetched: every step answers like the real value."""
    import copy
    v0 = SEQ_VALUES[ctx.choose(len(SEQ_VALUES), 'value')]
    steps = [SEQ_STEPS[ctx.choose(len(SEQ_STEPS), 'step%d' % k)] for k in range(3)]
    real, wrapped, fresh = copy.deepcopy(v0), P(copy.deepcopy(v0)), copy.deepcopy(v0)
    case = {'value': repr(v0), 'steps': steps}
    ctx.observe(repr(case))
    ctx.set_sample(case)
    ctx.mark_nontrivial(repr(case))
    saved = sb.result_proxy_class
    try:
        for k, st in enumerate(steps):
            if st == 'proxying-switched-off':
                sb.result_proxy_class = None
                continue
            eok, exp, _ = _apply(lambda x: _seq_step(st, x, fresh), real)
            ctx.step((st,))
            gok, got, buf = _apply(lambda x: _seq_step(st, x, fresh), wrapped)
            if eok != gok or (eok and not same(exp, got)) or (not eok and type(exp) is not type(got)):
                ctx.fail({'symptom': 'a later operation on the same result answers differently from the real value',
                          'step': st, 'after': ','.join(steps[:k]) or '-', 'value_class': type(v0).__name__}, case=case,
                         real=repr(exp)[:80], proxy=repr(got)[:80])
                break
    finally:
        sb.result_proxy_class = saved
    ctx.outcome('sequence')


def bounds(tier):
    v = QUICK_VALS if tier == 'quick' else THOROUGH_VALS
    return {'binary_ops': len(BIN), 'unary_ops': len(UN), 'value_classes': len(v),
            'values': sum(len(x) for x in v.values()), 'placements': ['left', 'right', 'both']}


def phases(tier):
    v = QUICK_VALS if tier == 'quick' else THOROUGH_VALS
    return [Phase('binary', make_binary(v), setup=_setup, chunk=500, describe='binary op x value x value x placement'),
            Phase('unary', make_unary(VALS if tier == 'quick' else THOROUGH_VALS), setup=_setup, chunk=200, describe='unary/builtin op x value'),
            Phase('sequences', body_sequences, setup=_setup, chunk=200,
                  describe='3 operations in a row on one result (look, change through itself, look again, proxying switched off meanwhile)')]
