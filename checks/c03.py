"""C03 -- the final score follows the documented valence/trigger arithmetic.

Driver A.  Reference: exact Fraction sum from the statement over the feedback objects
actually present in the report (so it also judges unit_test() with no extra modelling).
"""
from fractions import Fraction
from mc.explore import Phase
from checks import resolver_common as ref
from checks import c01

PROPERTY = 'C03'
RULE = ('a case is a creation/suppression history (or a unit_test() call with a pass/fail/error pattern) resolved '
        'with simple.resolve; non-trivial = at least two feedbacks carry a score and at least one scored feedback '
        'is excluded or sign-flipped by the valence/trigger/unscored/suppression rules; distinct by canonical report')
ASSUMPTIONS = ['expected score = Fraction arithmetic from the C03 statement, compared to 1e-9 after rounding to 2 decimals',
               'sums within 1e-7 of a rounding boundary are skipped and counted as abstained',
               'the docstring table in resolvers/simple.py is NOT the oracle; the statement is']
EXPLANATION = 'explicit enumeration of score/valence/trigger/flag combinations and sequences; reference-model oracle'

SCORES = [None, 0, 0.5, 1, '+20%', '20%', '-10%', '-0.25', '+1', 0.333, '+12.5%', '2.5%']
VALENCES = [-1, 0, 1]
STATES = [{}, {'activate': False}, {'muted': True}, {'unscored': True}, {'muted': True, 'activate': False},
          {'kind': 'Compliment'}, {'activate': False, 'else_message': 'fine'}, {'else_message': 'fine'}]

SYS = []
for _s in SCORES:
    for _v in VALENCES:
        for _st in STATES:
            d = dict(category='instructor', score=_s, valence=_v)
            d.update(_st)
            SYS.append(d)

SYS3 = [d for d in SYS if d['score'] in (None, 0.5, '+20%', '-10%', '-0.25', 0.333, '+12.5%')
        and not (d.get('muted') and d.get('activate') is False)]

CUR = [
    dict(category='instructor', score='+20%', valence=-1),
    dict(category='instructor', score='+20%', valence=-1, activate=False),
    dict(category='instructor', score='30%', valence=1),
    dict(category='instructor', score='30%', valence=1, activate=False),
    dict(category='runtime', score='-10%', valence=-1),
    dict(category='runtime', score='-10%', valence=-1, activate=False),
    dict(category='positive', score='-0.25', valence=1, correct=True),
    dict(category='positive', score=0.5, valence=0),
    dict(category='mistakes', score=0.333, valence=-1, activate=False, label='L'),
    dict(category='mistakes', score='+1', valence=1, muted=True, label='L'),
    dict(category='mistakes', score=1, valence=1, unscored=True),
    dict(category='syntax', score=None, valence=-1),
    dict(category='instructor', score='+5%', valence=-1, activate=False, muted=True),
    dict(category='instructor', score='+40%', valence=1, kind='Compliment', correct=True),
    dict(via='set_correct'),
    dict(category='instructor', score='+12.5%', valence=-1, activate=False, else_message='well done'),
    dict(category='specification', score='2.5%', valence=1, else_message='x'),
    dict(via='give_partial'),
    dict(via='compliment', score='+10%'),
    dict(via='gently', score='+15%'),
    dict(via='gently', score='+15%', activate=False),
    dict(via='explain', score='-5%', label='L'),
    dict(via='explain', score='20%', valence=0),
    dict(via='gently', score='50%', valence=0, activate=False),
    dict(via='gently', score='+10%', valence=1),
    dict(category='mistakes', score='+20%', valence=1, label='L', fields={'x': 1}),
    dict(category='mistakes', score=0.333, valence=0, label='L', fields={'x': 2}),
]
SUPSETS = [[], [('instructor', True, None)], [(None, 'L', None)], [('mistakes', 'l', None)],
           [('runtime', True, None), ('positive', True, None)],
           [(None, 'L', {'x': 1}), (None, 'L', {'x': 2})], [(None, 'L', {'x': 2}), (None, 'L', {'x': 1})],
           [('mistakes', 'L', {'x': 1}), ('mistakes', 'L', {'x': 2})], [(None, 'L', {'x': 2})]]


def _setup():
    c01._setup()
    global simple, cmds, MAIN_REPORT
    simple, cmds, MAIN_REPORT = c01.simple, c01.cmds, c01.MAIN_REPORT


def _check_score(ctx, fbs, sups, case, final):
    exp = ref.reference(fbs, sups)
    if exp is None:
        ctx.abstain()
        return
    if exp['default']:
        want = Fraction(1)
    else:
        want = exp['score']
        if ref.near_rounding_boundary(want):
            ctx.abstain()
            return
        want = round(want, 2)
    got = final.score
    ctx.outcome(str(float(want)))
    if not isinstance(got, (int, float)) or abs(got - float(want)) > 1e-9:
        # classify by the first single feedback whose handling explains the difference
        ctx.fail({'symptom': 'wrong score', 'default_result': exp['default']}, case=case,
                 expected=float(want), got=got, scores=getattr(final, '_scores', None))


def make_body(alpha, max_len, sup_len):
    def body(ctx):
        L = ctx.choose(max_len, 'len') + 1
        seq = [ctx.choose(len(alpha), 'fb%d' % k) for k in range(L)]
        supsets = SUPSETS if L <= sup_len else SUPSETS[:1]
        sups = supsets[ctx.choose(len(supsets), 'sups')]
        cmds.clear_report()
        fbs = []
        for k, di in enumerate(seq):
            ctx.step(('create', alpha[di]))
            fbs.append(c01._mk(alpha[di], k))
        if sups:
            c01._apply_sups(sups)
            ctx.step(('suppress', sups))
        case = {'feedbacks': [alpha[i] for i in seq], 'suppressions': sups}
        canon = repr([(f.category, f.label, f.score, f.valence, bool(f), f.muted, f.unscored, f.kind) for f in fbs]) + repr(sups)
        ctx.observe(canon)
        ctx.set_sample(case)
        scored = [f for f in fbs if f.score is not None]
        counted = [f for f in scored if not f.unscored and not ref.suppressed(f, sups)
                   and ((f.valence != -1) == bool(f))]
        if len(scored) >= 2 and len(counted) < len(scored):
            ctx.mark_nontrivial(canon)
        ctx.step('simple.resolve')
        try:
            final = simple.resolve()
        except Exception as e:
            ctx.fail({'symptom': 'resolve raised', 'exception': type(e).__name__}, case=case, message=str(e)[:200])
            return
        _check_score(ctx, fbs, sups, case, final)
        # resolving the same report again must give the same result (nothing accumulates in the report)
        ctx.step('simple.resolve (again)')
        try:
            again = simple.resolve()
            if (again.score, again.correct, again.label) != (final.score, final.correct, final.label):
                ctx.fail({'symptom': 'second resolve of the same report differs'}, case=case,
                         first=(final.score, final.correct, final.label), second=(again.score, again.correct, again.label))
        except Exception as e:
            ctx.fail({'symptom': 'second resolve raised', 'exception': type(e).__name__}, case=case)
        # 'N%' and N/100 are interchangeable; resolved_score keeps the sign
        for f in fbs:
            if f.score is not None and not f.unscored and not ref.suppressed(f, sups) and f.resolved_score is not None:
                v = ref.parse_score(f.score)
                rs = str(f.resolved_score)
                if not rs.endswith('%'):
                    ctx.fail({'symptom': 'resolved_score is not a percent string'}, case=case, resolved=rs)
    return body


CODE = "def add(a, b):\n    if a == 9: return 1/0\n    if a == 7: return 0\n    return a + b\n"
CASE = {'pass': ((1, 2), 3), 'fail': ((7, 2), 9), 'err': ((9, 2), 11)}
UT_SCORES = ['+60%', '30%', None]


def body_unit_test(ctx):
    from pedal.assertions.commands import unit_test
    from pedal.sandbox.commands import run
    k = ctx.choose(3, 'k') + 1
    pattern = [ctx.pick(['pass', 'fail', 'err'], 'case%d' % i) for i in range(k)]
    score = ctx.pick(UT_SCORES, 'score')
    pcs = [False, True, '10%', ['10%', '20%', '30%'][:k]]
    pc = pcs[ctx.choose(len(pcs), 'partial_credit')]
    other = ctx.flag('other')
    cmds.clear_report()
    cmds.contextualize_report(CODE)
    run()
    case = dict(pattern=pattern, score=score, partial_credit=pc, other=other)
    ctx.set_sample(case)
    ctx.step(('unit_test', case))
    try:
        r = unit_test('add', *[CASE[p] for p in pattern], score=score, partial_credit=pc)
    except Exception as e:
        ctx.fail({'symptom': 'unit_test raised', 'exception': type(e).__name__}, case=case, message=str(e)[:200])
        return
    if other:
        cmds.gently("other problem", label='other')
    ctx.step('simple.resolve')
    final = simple.resolve()
    fbs = MAIN_REPORT.feedback + MAIN_REPORT.ignored_feedback
    canon = repr(case)
    ctx.observe(canon)
    if score is not None and any(p != 'pass' for p in pattern):
        ctx.mark_nontrivial(canon)
    allpass = all(p == 'pass' for p in pattern)
    if bool(r) != allpass:
        ctx.fail({'symptom': 'unit_test return value', 'allpass': allpass}, case=case, got=repr(r))
    grp = [f for f in fbs if f.label == 'unit_test']
    if grp and grp[0].fields.get('success_count') != sum(p == 'pass' for p in pattern):
        ctx.fail({'symptom': 'unit_test success_count'}, case=case, got=grp[0].fields.get('success_count'))
    # the report order for eligibility is report.feedback (creation order among triggered)
    order = MAIN_REPORT.feedback + MAIN_REPORT.ignored_feedback
    _check_score(ctx, order, [], case, final)


SEC_CODE = "a = 0\n##### Part 1\nb = 1\n##### Part 2\nc = 2\n"
SCORED = [('give_partial', ('+30%',), {}), ('give_partial', ('-2%',), {'label': 'penalty'}), ('compliment', ('nice',), {'score': 0.07}),
          ('gently', ('wrong',), {'label': 'w', 'score': '+10%'}), ('gently', ('fine',), {'label': 'f', 'score': '+20%', 'activate': False}),
          ('explain', ('muted',), {'label': 'm', 'score': '+15%', 'muted': True, 'activate': False})]


def body_sections(ctx):
    """Scored feedback given before, inside and between the sections of a sectioned submission, resolved with the
    simple and with the full resolver: the same documented sum."""
    from pedal.source import verify, separate_into_sections, next_section
    from pedal.resolvers import full
    where = [ctx.choose(3, 'where%d' % k) for k in range(3)]       # before the sections | in part 1 | in part 2
    what = [ctx.choose(len(SCORED), 'what%d' % k) for k in range(3)]
    cmds.clear_report()
    cmds.contextualize_report(SEC_CODE)
    verify()
    plan = sorted(zip(where, range(3), what))
    case = {'plan': [(('before', 'part 1', 'part 2')[w], SCORED[x][0], SCORED[x][1], SCORED[x][2]) for w, _, x in plan]}
    ctx.observe(repr(case))
    ctx.set_sample(case)
    ctx.mark_nontrivial(repr(case))
    pos = 0
    separated = False
    for w, _, x in plan:
        while pos < w:
            if not separated:
                separate_into_sections()
                separated = True
            next_section()
            verify()
            pos += 1
        name, args, kw = SCORED[x]
        ctx.step((name, args, kw, 'in', ('before', 'part 1', 'part 2')[w]))
        getattr(cmds, name)(*args, **kw)
    if not separated:
        separate_into_sections()
    order = MAIN_REPORT.feedback + MAIN_REPORT.ignored_feedback
    for rname, resolver in (('simple', simple), ('full', full)):
        ctx.step(rname + '.resolve')
        try:
            final = resolver.resolve()
        except Exception as e:
            ctx.fail({'symptom': 'resolve raised', 'resolver': rname, 'exception': type(e).__name__}, case=case, message=str(e)[:200])
            continue
        n0 = len(ctx.fails)
        _check_score(ctx, order, [], dict(case, resolver=rname), final)
        for sig, det in ctx.fails[n0:]:
            sig['resolver'] = rname


GROUP_MEMBERS = ['equal-pass', 'equal-fail', 'literal-present', 'literal-absent', 'give_partial', 'gently-untriggered', 'inner-group']


def body_group(ctx):
    """assert_group: whatever feedback is created inside the group is muted and unscored; only the group's own score
    takes part in the sum."""
    from pedal.assertions import assert_group, assert_equal, ensure_literal
    members = [GROUP_MEMBERS[ctx.choose(len(GROUP_MEMBERS), 'member%d' % k)] for k in range(ctx.choose(3, 'members') + 1)]
    gscore = ('+40%', None, '-10%')[ctx.choose(3, 'group-score')]
    cmds.clear_report()
    cmds.contextualize_report("a = 3\nprint(a)\n")
    case = {'members': members, 'group_score': gscore}
    ctx.observe(repr(case))
    ctx.set_sample(case)
    ctx.mark_nontrivial(repr(case))
    ctx.step(('assert_group', case))
    try:
        with assert_group('checks', **({'score': gscore} if gscore else {})) as group:
            for m in members:
                if m == 'equal-pass':
                    assert_equal(1 + 1, 2, score='+10%')
                elif m == 'equal-fail':
                    assert_equal(1 + 1, 3, score='+10%')
                elif m == 'literal-present':
                    ensure_literal(3, score='+15%')
                elif m == 'literal-absent':
                    ensure_literal(99, score='+15%')
                elif m == 'give_partial':
                    cmds.give_partial('+25%')
                elif m == 'gently-untriggered':
                    cmds.gently('quiet', label='quiet', score='+5%', activate=False)
                else:
                    with assert_group('inner', score='+20%'):
                        assert_equal(2 * 2, 4, score='+10%')
    except Exception as e:
        ctx.fail({'symptom': 'assert_group raised', 'exception': type(e).__name__}, case=case, message=str(e)[:200])
        return
    cmds.gently('something else is wrong', label='other')
    every = MAIN_REPORT.feedback + MAIN_REPORT.ignored_feedback
    inside = [f for f in every if f is not group and f.label != 'other']
    loose = [f.label for f in inside if not (f.muted and f.unscored)]
    if loose:
        ctx.fail({'symptom': 'feedback created inside an assert_group is not muted and unscored'}, case=case, labels=loose)
    final = simple.resolve()
    want = 0.0
    if gscore and not bool(group):
        want = 0.4 if gscore == '+40%' else -0.1
    ctx.outcome(str(want))
    if abs(final.score - want) > 1e-9:
        ctx.fail({'symptom': 'wrong score', 'default_result': False, 'feature': 'assert_group'}, case=case, expected=want,
                 got=final.score, group_failed=bool(group))


def bounds(tier):
    return {'systematic_descriptors': len(SYS), 'systematic_max_len': 2,
            'curated_descriptors': len(CUR), 'curated_max_len': 3 if tier == 'quick' else 4,
            'unit_test': 'k<=3 cases x pass/fail/err x 3 scores x 4 partial-credit modes x other feedback'}


def phases(tier):
    return [
        Phase('systematic', make_body(SYS, 2, 2), setup=_setup,
              describe='sequences <=2 over score x valence x state (%d descriptors) x suppression sets' % len(SYS)),
        Phase('curated', make_body(CUR, 3 if tier == 'quick' else 4, 3 if tier == 'quick' else 4), setup=_setup,
              describe='sequences over curated scored descriptors x suppression sets'),
    ] + ([Phase('systematic-3', make_body(SYS3, 3, 0), setup=_setup,
                describe='sequences <=3 over a reduced score x valence x state cross (%d descriptors)' % len(SYS3))]
         if tier == 'thorough' else []) + [
        Phase('unit_test', body_unit_test, setup=_setup, describe='unit_test() partial credit layer'),
        Phase('sections', body_sections, setup=_setup,
              describe='3 scored feedbacks placed before / in part 1 / in part 2 of a sectioned submission; simple and full resolver'),
        Phase('assert_group', body_group, setup=_setup,
              describe='<=3 members of 7 kinds (runtime/static assertions, plain feedback, inner group) in a scored group'),
    ]
