"""C09 -- TIFA's initialization/unused-variable diagnoses match the execution paths.

Driver B with an exhaustive path oracle.
 exact part : programs of assignments / reads / copies / nested if-else over two
              variables; every combination of branch outcomes is enumerated symbolically;
              TIFA's issues keyed by (line, name) must equal the oracle's map exactly.
 no-miss    : the same plus while / for / def bodies; the program is executed under
              CPython once per vector of branch outcomes and iteration counts; every
              NameError/UnboundLocalError observed at (line, name) must be reported.
"""
import contextlib
import io
import itertools
import re
from mc.explore import Phase

PROPERTY = 'C09'
RULE = ('a case is one program of the flow grammar analysed by TIFA and judged against all of its execution paths; '
        'non-trivial = the program has at least one branch/loop/function and at least one read whose verdict is not '
        '"assigned on every path"; distinct by program text')
ASSUMPTIONS = ['every statement is on its own line, so (line, name) identifies a read',
               'conditions read a pre-assigned input, so every combination of branch outcomes is admissible',
               'unused: the oracle abstains for a variable that also has an uninitialised read (the statement does not say '
               'what a failed read uses)', 'no-miss part: loops run 0, 1 or 2 iterations; at most 6 nondeterministic answers per run']
EXPLANATION = 'bounded-exhaustive program grammar; oracle = exhaustive enumeration of execution paths (symbolic or by running CPython)'

VARS = ['x', 'y']
BASE = [('asg', 'x'), ('asg', 'y'), ('rd', 'x'), ('rd', 'y'), ('cp', 'x', 'y'), ('cp', 'y', 'x'), ('cp', 'x', 'x')]
# other spellings of an assignment: several targets at once, an annotated one, an augmented one (reads, then assigns)
SPELL = [('chain', 'x', 'y'), ('ann', 'x'), ('aug', 'x'), ('unpack', 'x', 'y')]


def _stmts(depth, maxlen):
    out = list(BASE)
    if depth > 0:
        inner = _blocks(depth - 1, maxlen, maxlen)
        for t in inner:
            out.append(('if1', t))
        for t in inner:
            for e in inner:
                out.append(('if', t, e))
    return out


def _blocks(depth, maxlen, inner_maxlen):
    ss = _stmts(depth, inner_maxlen)
    out = []
    for n in range(1, maxlen + 1):
        for combo in itertools.product(ss, repeat=n):
            out.append(tuple(combo))
    return out


def _fresh(block):
    """deep copy into unique list objects (ids identify statements)"""
    r = []
    for s in block:
        if s[0] == 'if1':
            r.append(['if1', _fresh(s[1])])
        elif s[0] == 'if':
            r.append(['if', _fresh(s[1]), _fresh(s[2])])
        else:
            r.append(list(s))
    return r


def render(block, ind, lines):
    for s in block:
        k = s[0]
        if k == 'asg':
            lines.append((ind + "%s = 1" % s[1], s))
        elif k == 'rd':
            lines.append((ind + "print(%s)" % s[1], s))
        elif k == 'cp':
            lines.append((ind + "%s = %s" % (s[1], s[2]), s))
        elif k == 'chain':
            lines.append((ind + "%s = %s = 1" % (s[1], s[2]), s))
        elif k == 'ann':
            lines.append((ind + "%s: int = 1" % s[1], s))
        elif k == 'aug':
            lines.append((ind + "%s += 1" % s[1], s))
        elif k == 'unpack':
            lines.append((ind + "%s, %s = 1, 2" % (s[1], s[2]), s))
        elif k == 'if1':
            lines.append((ind + "if c:", None))
            render(s[1], ind + "    ", lines)
        elif k == 'if':
            lines.append((ind + "if c:", None))
            render(s[1], ind + "    ", lines)
            lines.append((ind + "else:", None))
            render(s[2], ind + "    ", lines)


def paths(block, states):
    for s in block:
        k = s[0]
        if k in ('if1', 'if'):
            a = paths(s[1], [dict(st) for st in states])
            b = paths(s[2], [dict(st) for st in states]) if k == 'if' else [dict(st) for st in states]
            states = a + b
        else:
            new = []
            for st in states:
                asg, unread, reads = st['asg'], st['unread'], st['reads']
                if k in ('rd', 'cp', 'aug'):
                    v = s[2] if k == 'cp' else s[1]
                    reads = reads + ((id(s), v, v in asg),)
                    unread = unread - {v}
                if k in ('asg', 'cp', 'ann', 'aug'):
                    asg = asg | {s[1]}
                    unread = unread | {s[1]}
                if k in ('chain', 'unpack'):
                    asg = asg | {s[1], s[2]}
                    unread = unread | {s[1], s[2]}
                new.append(dict(asg=asg, unread=unread, reads=reads))
            # paths with identical state are merged (keeps the enumeration small; verdicts depend on the state only)
            seen = {}
            for st in new:
                seen[(st['asg'], st['unread'], st['reads'])] = st
            states = list(seen.values())
    return states


def _setup():
    global cmds, tifa_analysis
    import importlib
    cmds = importlib.import_module('pedal.core.commands')
    from pedal.tifa import tifa_analysis


KIND_OF = {'initialization_problem': 'init', 'possible_initialization_problem': 'possible', 'read_out_of_scope': 'init'}


OTHER_PROGRAM = "print(zq)\nif zc:\n    zp = 1\nprint(zp)\nzu = 2\n"      # has one issue of every judged kind
ROUTES = ['tifa_analysis()', 'tifa_analysis(other) first', 'tifa_analysis(code) while another submission is loaded',
          'tifa_analysis(); tifa_analysis(other); tifa_analysis() again',
          'as part 1 of a sectioned submission of two files, below an import of the other file']
SECTION_PREFIX = "pre = 0\nprint(pre)\n##### Part 1\nimport helper\n"
SECTION_SHIFT = 4


# the two variables under other names: short ones, ones that are pieces of words pedal uses internally, look-alikes
NAME_PAIRS = [('x', 'y'), ('n', 't'), ('e', 'r'), ('u', 'ret'), ('total', 'count'), ('_', 'X'), ('retur', 'return_'),
              ('self', 'cls'), ('l', 'list1'), ('print_', 'input_')]


def check_exact(ctx, block, route=0, names=('x', 'y')):
    block = _fresh(block)
    lines = [("c = input()", None)]
    render(block, "", lines)
    code = "\n".join(l for l, _ in lines) + "\n"
    fwd = {'x': names[0], 'y': names[1]}
    inv = {v: k for k, v in fwd.items()}
    if names != ('x', 'y'):
        import re
        code = re.sub(r'\b(x|y)\b', lambda m: fwd[m.group(1)], code)
    line_of = {id(s): i + 1 for i, (_, s) in enumerate(lines) if s is not None}
    finals = paths(block, [dict(asg=frozenset(), unread=frozenset(), reads=())])
    per_read = {}
    for st in finals:
        for (sid, v, ok) in st['reads']:
            per_read.setdefault((line_of[sid], v), set()).add(ok)
    expect = {}
    for key, oks in per_read.items():
        expect[key] = 'none' if oks == {True} else ('init' if oks == {False} else 'possible')
    everassigned = set().union(*[st['asg'] for st in finals])
    failed_read_vars = {v for (ln, v), kind in expect.items() if kind != 'none'}
    unused_must = {v for v in everassigned
                   if all(v in st['unread'] or v not in st['asg'] for st in finals) and any(v in st['unread'] for st in finals)}
    unused_mustnot = {v for v in everassigned if all(v in st['asg'] and v not in st['unread'] for st in finals)}
    ctx.observe(code)
    ctx.set_sample(code)
    if len(finals) > 1 and any(k != 'none' for k in expect.values()):
        ctx.mark_nontrivial(code)
    cmds.clear_report()
    ctx.step(ROUTES[route])
    shift = 0
    if route == 0:
        cmds.contextualize_report(code)
        t = tifa_analysis()
    elif route == 1:
        # the report's analyser has already analysed another program (given explicitly)
        cmds.contextualize_report(code)
        tifa_analysis(OTHER_PROGRAM)
        t = tifa_analysis()
    elif route == 2:
        cmds.contextualize_report(OTHER_PROGRAM)
        tifa_analysis()
        t = tifa_analysis(code)
    elif route == 3:
        cmds.contextualize_report(code)
        tifa_analysis()
        tifa_analysis(OTHER_PROGRAM)
        t = tifa_analysis()
    else:
        from pedal.core.submission import Submission
        from pedal.source.sections import separate_into_sections, next_section
        full = SECTION_PREFIX + code
        cmds.contextualize_report(Submission(files={'answer.py': full, 'helper.py': "HV = 1\nunused_in_helper = 2\n"},
                                             main_file='answer.py', main_code=full))
        separate_into_sections(independent=True)
        next_section()
        t = tifa_analysis()
        shift = SECTION_SHIFT
    if not t.success:
        ctx.fail({'symptom': 'tifa internal failure'}, program=code, error=repr(t.error)[:100])
        return
    # the documented accessor must hand out exactly the issues of the analysis just asked for
    from pedal.tifa.commands import get_issues
    for label in list(KIND_OF) + ['unused_variable']:
        via = [(i.location.line, i.fields.get('name')) for i in get_issues(label)]
        direct = [(i.location.line, i.fields.get('name')) for i in t.issues.get(label, [])]
        if route == 4:
            via = [v for v in via if v[1] in ('x', 'y')]
            direct = [v for v in direct if v[1] in ('x', 'y')]
        if via != direct:
            ctx.fail({'symptom': 'get_issues() differs from the issues of the analysis', 'label': label,
                      'route': ROUTES[route]}, program=code, via_get_issues=via, analysis=direct)
    got = {}
    for label, kind in KIND_OF.items():
        for i in t.issues.get(label, []):
            if shift and i.fields['name'] not in fwd.values():
                continue         # (issues about the surrounding file's own names are not this program's)
            got[(i.location.line - shift, inv.get(i.fields['name'], i.fields['name']))] = kind
    for key, kind in expect.items():
        ctx.evaluated()
        g = got.get(key, 'none')
        if g != kind:
            ctx.fail({'symptom': 'read diagnosed wrongly', 'expected': kind, 'got': g}, program=code, line=key[0], name=key[1])
    for key in got:
        if key not in expect:
            ctx.fail({'symptom': 'issue reported at a line with no such read', 'got': got[key]}, program=code, at=key)
    un = {inv.get(i.fields['name'], i.fields['name']) for i in t.issues.get('unused_variable', [])}
    for v in unused_must - failed_read_vars:
        if v not in un:
            sig = {'symptom': 'unused variable not reported'}
            if fwd.get(v, v) == '_':
                sig['variable'] = '_'          # the conventional throwaway name
            ctx.fail(sig, program=code, name=fwd.get(v, v))
    for v in unused_mustnot - failed_read_vars:
        if v in un:
            ctx.fail({'symptom': 'variable reported unused although read after its last assignment on every path'},
                     program=code, name=v)
    ctx.abstain(len((unused_must | unused_mustnot) & failed_read_vars))
    ctx.outcome(','.join(sorted(set(expect.values()))) or 'no-reads')


def make_exact(tops, max_top, routes=False, names=False):
    def body(ctx):
        n = ctx.choose(max_top, 'n') + 1
        block = [tops[ctx.choose(len(tops), 's%d' % i)] for i in range(n)]
        pair = NAME_PAIRS[ctx.choose(len(NAME_PAIRS) - 1, 'names') + 1] if names else NAME_PAIRS[0]
        check_exact(ctx, block, ctx.choose(len(ROUTES), 'route') if routes else 0, pair)
    return body


# ---- no-miss part ------------------------------------------------------------------------

NM_BASE = ["x = 1", "y = 1", "print(x)", "print(y)", "y = x", "x = x + 1"]


def nm_statements():
    ss = list(NM_BASE)
    inner = [[s] for s in NM_BASE] + [[a, b] for a in NM_BASE[:4] for b in NM_BASE[:4]]
    for body in inner:
        ss.append(("if", body))
        ss.append(("while", body))
        ss.append(("for", body))
        ss.append(("def", body))
    for a in inner[:6]:
        for b in inner[:6]:
            ss.append(("ifelse", a, b))
    return ss


def nm_render(prog):
    lines = []
    for s in prog:
        if isinstance(s, str):
            lines.append(s)
        elif s[0] == 'if':
            lines.append("if nd():")
            lines += ["    " + l for l in s[1]]
        elif s[0] == 'ifelse':
            lines.append("if nd():")
            lines += ["    " + l for l in s[1]]
            lines.append("else:")
            lines += ["    " + l for l in s[2]]
        elif s[0] == 'while':
            lines.append("while nd():")
            lines += ["    " + l for l in s[1]]
        elif s[0] == 'for':
            lines.append("for i in seq():")
            lines += ["    " + l for l in s[1]]
        elif s[0] == 'def':
            lines.append("def f():")
            lines += ["    " + l for l in s[1]]
            lines.append("f()")
        elif s[0] == 'defonly':
            lines.append("def f():")
            lines += ["    " + l for l in s[1]]
    return "\n".join(lines) + "\n"


def executions(code):
    """Run under every vector of nondeterministic answers (DFS on demand); (line, name) of name errors."""
    comp = compile(code, 'answer.py', 'exec')
    errs = set()
    stack = [[]]
    runs = 0
    while stack:
        vec = stack.pop()
        pos = [0]
        used = []

        def nd():
            v = vec[pos[0]] if pos[0] < len(vec) else 0
            used.append(v)
            pos[0] += 1
            if len(used) > 6:
                return False
            return bool(v)

        def seq():
            v = vec[pos[0]] if pos[0] < len(vec) else 0
            used.append(v)
            pos[0] += 1
            return [0] * v
        env = {'nd': nd, 'seq': seq, '__name__': '__main__'}
        runs += 1
        try:
            with contextlib.redirect_stdout(io.StringIO()):
                exec(comp, env)
        except NameError as e:
            tb = e.__traceback__
            while tb.tb_next:
                tb = tb.tb_next
            nm = e.name or (re.search(r"'(\w+)'", str(e)) or [None, None])[1]
            errs.add((tb.tb_lineno, nm, type(e).__name__))
        except Exception:
            pass
        for i in range(len(vec), min(len(used), 6)):
            for alt in (1, 2):
                stack.append(used[:i] + [alt])
    return errs, runs


def _classify_miss(prog, code, line, name):
    """Which known shape (if any) explains a missed read?"""
    src = code.split("\n")
    text = src[line - 1]
    # (a) the read sits in a function body that also assigns the name (so it is local) while a global exists
    for s in prog:
        if not isinstance(s, str) and s[0] in ('def', 'defonly'):
            if text.strip() in [l.strip() for l in s[1]] and text.startswith("    ") and \
                    any(re.match(r"%s\s*=" % name, l) for l in s[1]):
                return 'local read before local assignment shadowing a global'
    # (b) the name is assigned only inside a for body (or is the loop variable) and read after the loop may find nothing
    for s in prog:
        if not isinstance(s, str) and s[0] == 'for':
            if name == 'i' or any(re.match(r"%s\s*=" % name, l) for l in s[1]):
                return 'read after for-body assignment'
    return 'other'


def make_nomiss(ss, max_top):
    def body(ctx):
        n = ctx.choose(max_top, 'n') + 1
        prog = tuple(ss[ctx.choose(len(ss), 's%d' % i)] for i in range(n))
        code = nm_render(prog)
        errs, runs = executions(code)
        ctx.observe(code)
        ctx.set_sample(code)
        ctx.evaluated(runs)
        if errs:
            ctx.mark_nontrivial(code)
        cmds.clear_report()
        cmds.contextualize_report(code)
        ctx.step('tifa_analysis')
        t = tifa_analysis()
        if not t.success:
            ctx.fail({'symptom': 'tifa internal failure'}, program=code, error=repr(t.error)[:100])
            return
        got = set()
        for label in KIND_OF:
            for i in t.issues.get(label, []):
                got.add((i.location.line, i.fields['name']))
        for (line, name, exc) in sorted(errs):
            if (line, name) not in got:
                ctx.fail({'symptom': 'missed uninitialised read', 'shape': _classify_miss(prog, code, line, name)},
                         program=code, line=line, name=name, cpython=exc)
        ctx.outcome('errors:%d' % len(errs))
    return body


def bounds(tier):
    return {'exact': 'top-level sequences of <=2 depth-1 statements (63) + depth-2 single statements (4039); thorough adds '
                     'sequences of 3 depth-1 statements and depth-1 statements with 2-statement blocks',
            'no_miss': 'sequences of <=2 statements over %d statements (if/while/for/def bodies of 1-2 statements)' % len(nm_statements())}


def phases(tier):
    d1 = _stmts(1, 1)
    d2 = _stmts(2, 1)
    ph = [Phase('exact-depth1', make_exact(d1, 2, routes=True), setup=_setup, chunk=300,
                describe='all sequences of <=2 depth-1 statements x 4 analysis routes (plain, after another program, explicit code, re-asked)'),
          Phase('exact-depth2', make_exact(d2, 1), setup=_setup, chunk=300, describe='every depth-2 single statement')]
    ph.append(Phase('exact-names', make_exact(d1, 2, names=True), setup=_setup, chunk=300,
                    describe='all sequences of <=2 depth-1 statements with the two variables under %d other pairs of names'
                             % (len(NAME_PAIRS) - 1)))
    spell = list(BASE) + SPELL + [('if1', (b,)) for b in BASE[:4] + SPELL] + \
        [('if', (t,), (e,)) for t in SPELL + [('rd', 'x')] for e in SPELL + [('rd', 'y'), ('asg', 'x')]]
    ph.append(Phase('exact-spellings', make_exact(spell, 3 if tier == 'thorough' else 2), setup=_setup, chunk=300,
                    describe='sequences over the base statements and other spellings of assignment (several targets, annotated, '
                             'augmented, unpacking), plain and inside branches (%d statements)' % len(spell)))
    # a function defined once and called from several places: every call is one more execution of its body
    calls = ["x = 1", "print(x)", "f()", ("defonly", ["print(x)"]), ("defonly", ["x = 1"]), ("defonly", ["print(x)", "x = 1"]),
             ("if", ["x = 1", "f()"]), ("if", ["f()"]), ("if", ["x = 1"]), ("ifelse", ["x = 1"], ["f()"]), ("while", ["f()"]),
             ("for", ["x = 1", "f()"])]
    ph.append(Phase('no-miss-calls', make_nomiss(calls, 4 if tier == 'thorough' else 3), setup=_setup, chunk=100,
                    describe='a function defined once and called from several places (plain, in branches, in loops): all '
                             'sequences over %d statements' % len(calls)))
    d1b = _stmts(1, 2)
    # reduced sets for sequences of three statements
    core3 = [('asg', 'x'), ('asg', 'y'), ('rd', 'x')]
    red = list(BASE) + [('if1', (b,)) for b in BASE] + [('if', (t,), (e,)) for t in core3 for e in core3]
    nm_core = ["x = 1", "print(x)"]
    nm_red = list(NM_BASE) + [(k, [b]) for k in ('if', 'while', 'for', 'def') for b in nm_core] + \
        [('ifelse', [t], [e]) for t in ("x = 1", "y = 1", "print(x)") for e in ("x = 1", "y = 1", "print(x)")]
    ph.append(Phase('exact-x3-reduced', make_exact(red, 3), setup=_setup, chunk=300,
                    describe='all sequences of <=3 statements over a reduced depth-1 set (%d)' % len(red)))
    ph.append(Phase('no-miss-x3-reduced', make_nomiss(nm_red, 3), setup=_setup, chunk=100,
                    describe='all sequences of <=3 statements over a reduced loop/branch/function set (%d)' % len(nm_red)))
    if tier == 'quick':
        # two-statement blocks: every single statement whose blocks have up to two statements, sampled exhaustively
        # over the sub-family whose then-block has two statements and whose else-block has one
        fam = [s for s in d1b if s[0] == 'if1' or (s[0] == 'if' and len(s[2]) == 1)]
        ph.append(Phase('exact-blocks2', make_exact(fam, 1), setup=_setup, chunk=300,
                        describe='single if statements with a 2-statement then-block (%d)' % len(fam)))
        ph.append(Phase('no-miss', make_nomiss(nm_statements(), 2), setup=_setup, chunk=100,
                        describe='all sequences of <=2 statements with if/while/for/def bodies, executed under all outcome vectors'))
    else:
        ph.append(Phase('exact-depth1-x3', make_exact(d1, 3), setup=_setup, chunk=500, describe='all sequences of 3 depth-1 statements'))
        ph.append(Phase('exact-blocks2', make_exact(d1b, 1), setup=_setup, chunk=300, describe='single statements with <=2-statement blocks'))
        ph.append(Phase('exact-blocks2-seq', make_exact(d1b[:7] + [s for s in d1b if s[0] == 'if1'], 2), setup=_setup, chunk=300,
                        describe='pairs over base statements and if1 with <=2-statement blocks'))
        ph.append(Phase('no-miss', make_nomiss(nm_statements(), 2), setup=_setup, chunk=100,
                        describe='all sequences of <=2 statements with while/for/def bodies'))
        small = [s for s in nm_statements() if isinstance(s, str) or (len(s[1]) == 1 and s[0] != 'ifelse')]
        ph.append(Phase('no-miss-x3', make_nomiss(small, 3), setup=_setup, chunk=100,
                        describe='all sequences of 3 statements over the statements with 1-statement bodies (%d)' % len(small)))
    return ph
