import argparse, sys
from pedal.command_line.modes import Bundle
from pedal.core.submission import Submission
cfg = argparse.Namespace(threaded=False, resolver='resolve')
def grade(script, code, env='standard'):
    sub = Submission(main_file='answer.py', main_code=code, instructor_file='ics.py')
    b = Bundle(cfg, script, sub); b.environment = env
    b.run_ics_bundle()
    r = b.result; res = r.resolution
    return (repr(r.error)[:80], r.output[:120], (res.label, res.title, str(res.message)[:40], res.correct, res.score) if res is not None and hasattr(res,'label') else repr(res)[:80])
S1 = "from pedal import *\nassert_equal(call('add', 1, 2), 3)\n"
P2 = "def add(a, b):\n    return a - b\nprint(add(1,2))\n"
for env in ['standard', 'blockpy', 'vpl', 'gradescope', 'terminal', 'none']:
    try: print(env, grade(S1, P2, env))
    except BaseException as e: print(env, "RAISED", repr(e)[:100])
