import sys, io, operator, math
from pedal.core.commands import *
from pedal.core.report import MAIN_REPORT
from pedal.sandbox.commands import *
from pedal.sandbox.result import SandboxResult
contextualize_report("def f(x):\n    return x\ndef g():\n    print('a')\n    print()\n    print('b', end='')\nprint('top')")
run()
print("C15 after run", repr(get_raw_output()), get_output())
call('f', 1)
print("C15 after silent call", repr(get_raw_output()), get_output())
call('g')
print("C15 after g", repr(get_raw_output()), get_output())
clear_output(); call('f', 2); print("after clear+silent", get_output())
# C16
sb = get_sandbox()
def P(v): return SandboxResult(v, 0, sb)
import contextlib
def tryop(name, fn, *vals):
    buf = io.StringIO()
    try:
        exp = fn(*vals); eok = True
    except Exception as e: exp = type(e).__name__; eok = False
    for mask in range(1, 2**len(vals)):
        args = [P(v) if mask>>i & 1 else v for i,v in enumerate(vals)]
        with contextlib.redirect_stdout(buf):
            try: got = fn(*args); gok = True
            except Exception as e: got = type(e).__name__+':'+str(e)[:40]; gok=False
        bad = (eok != gok) or (eok and not (got == exp)) or buf.getvalue() or got is NotImplemented
        if bad: print("C16 MISMATCH", name, vals, "mask", mask, "expected", exp, "got", repr(got), "stdout", repr(buf.getvalue()))
        buf.seek(0); buf.truncate()
for name, fn in [('add', operator.add), ('sub', operator.sub), ('mul', operator.mul), ('truediv', operator.truediv), ('floordiv', operator.floordiv),
                 ('mod', operator.mod), ('pow', operator.pow), ('lshift', operator.lshift), ('rshift', operator.rshift), ('and', operator.and_), ('or', operator.or_), ('xor', operator.xor),
                 ('divmod', divmod), ('eq', operator.eq), ('lt', operator.lt), ('contains', operator.contains), ('getitem', operator.getitem)]:
    for vals in [(7, 2), (7.5, 2), (2, 7.5), ('ab', 'c'), ('ab', 2), (2, 'ab'), ([1], [2]), ([1,2], 2), (2, [1]), ((1,), (2,)), ({1}, {2}), (True, False), ({'a': 1}, 'a'), ([1,2,3], 1), ('abc', 'b')]:
        tryop(name, fn, *vals)
for name, fn in [('int', int), ('float', float), ('complex', complex), ('round', round), ('trunc', math.trunc), ('floor', math.floor), ('ceil', math.ceil), ('len', len), ('hash', hash), ('bool', bool), ('str', str), ('repr', repr),
                 ('neg', operator.neg), ('abs', abs), ('invert', operator.invert), ('iter', lambda v: list(iter(v))), ('format', lambda v: format(v, '')), ('isinstance', lambda v: isinstance(v, int)), ('index', operator.index)]:
    for vals in [(7,), (7.5,), ('12',), ([1,2],), (None,), (True,), ((1,2),), ({'a':1},)]:
        tryop(name, fn, *vals)
from pedal.sandbox import result as R
try: print("result.len([1,2])", R.len([1,2]))
except RecursionError as e: print("C16 result.len raw RecursionError")
