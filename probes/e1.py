from pedal.core.commands import *
from pedal.core.feedback import Feedback
from pedal.core.report import MAIN_REPORT
from pedal.resolvers import simple, full
import traceback
def tryit(name, f):
    clear_report()
    try:
        r = f()
        print(name, '->', r)
    except Exception as e:
        print(name, 'RAISED', type(e).__name__, e)
def a():
    gently("m1", label="lab", fields={'x': 1})
    suppress(label="lab", fields={'x': 1})
    r = simple.resolve(); return (r.label, r.title, r.message, r.correct, r.score)
tryit("suppress label+fields", a)
def b():
    gently("m1", label="lab")
    suppress(label="lab")
    r = simple.resolve(); return (r.label, r.title, r.message, r.correct, r.score)
tryit("suppress label", b)
def c():
    Feedback(label="nocat", message="hello")
    r = simple.resolve(); return (r.label, r.title, r.message, r.correct, r.score)
tryit("category None", c)
def d():
    gently("m1", label="lab", fields={'x': 1})
    suppress("instructor", "lab", fields={'x': 2})
    r = simple.resolve(); return (r.label, r.title, r.message, r.correct, r.score)
tryit("suppress cat+label+fields mismatch", d)
def e():
    gently("m1", label="Lab")
    suppress("instructor", "Lab")
    r = simple.resolve(); return (r.label, r.title, r.message, r.correct, r.score)
tryit("suppress cat+label mixedcase", e)
def f():
    gently("low", label="a", priority='low'); gently("hi", label="b", priority='high')
    explain("ex", label="c", priority='lowest'); 
    r = simple.resolve(); return (r.label, r.title, r.message, r.correct, r.score)
tryit("prio", f)
def g():
    set_correct(); gently("bad", label='x')
    r = simple.resolve(); return (r.label, r.title, r.message, r.correct, r.score)
tryit("set_correct+gently", g)
def h():
    gently("bad", label='x', muted=True); 
    r = simple.resolve(); return (r.label, r.title, r.message, r.correct, r.score)
tryit("muted only", h)
def i():
    give_partial(.5); give_partial("20%"); gently("bad", label='x', score="-10%"); explain("q", label='y', activate=False, score=5)
    r = simple.resolve(); return (r.label, r.title, r.message, r.correct, r.score, r._scores)
tryit("scores", i)
def j():
    compliment("nice"); 
    r = simple.resolve(); return (r.label, r.title, r.message, r.correct, r.score, r._scores)
tryit("compliment only", j)
def k():
    gently("bad", label='x', category='Instructor', priority='SYNTAX'); explain("q", label='y')
    r = simple.resolve(); return (r.label, r.title, r.message, r.correct, r.score, r._scores)
tryit("upper", k)
