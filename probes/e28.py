import itertools
from fractions import Fraction
from pedal.core.commands import *
from pedal.core.report import MAIN_REPORT
from pedal.assertions.commands import unit_test
from pedal.sandbox.commands import run
from pedal.resolvers import simple
CODE = "def add(a, b):\n    if a == 9: return 1/0\n    if a == 7: return 0\n    return a + b\n"
def suppressed(f): return False
def ref_score(report):
    total = Fraction(0)
    for f in report.feedback + report.ignored_feedback:
        if f.unscored or f.score is None: continue
        s = str(f.score); neg = s.startswith('-'); s2 = s.lstrip('+-'); pct = s2.endswith('%'); v = Fraction(s2.rstrip('%')); v = v / 100 if pct else v
        if neg: v = -v
        trig = bool(f)
        if (f.valence != -1 and trig) or (f.valence == -1 and not trig): total += v
    return float(round(total, 2))
CASE = {'pass': ((1, 2), 3), 'fail': ((7, 2), 9), 'err': ((9, 2), 11)}
n = bad = 0
for k in (1, 2, 3):
    for pattern in itertools.product(['pass', 'fail', 'err'], repeat=k):
        for score in ('+60%', '30%', None):
            for pc in (False, True, '10%', ['10%', '20%', '30%'][:k]):
                for other in (False, True):
                    clear_report(); contextualize_report(CODE); run()
                    try:
                        r = unit_test('add', *[CASE[p] for p in pattern], score=score, partial_credit=pc)
                    except Exception as e:
                        print("unit_test RAISED", pattern, score, pc, repr(e)[:80]); bad += 1; continue
                    if other: gently("other problem", label='other')
                    final = simple.resolve()
                    n += 1
                    allpass = all(p == 'pass' for p in pattern)
                    grp = [f for f in MAIN_REPORT.feedback + MAIN_REPORT.ignored_feedback if f.label == 'unit_test'][0]
                    probs = []
                    if r != allpass: probs.append(('return', r, allpass))
                    if grp.fields['success_count'] != sum(p == 'pass' for p in pattern): probs.append(('success_count', grp.fields['success_count']))
                    default = (final.label == 'set_correct_no_errors')
                    exp = 1 if default else ref_score(MAIN_REPORT)
                    if final.score != exp: probs.append(('score', final.score, exp))
                    if probs:
                        bad += 1; print(pattern, score, pc, other, probs, final._scores)
print("cases", n, "bad", bad)
