import itertools, time, warnings
warnings.filterwarnings('ignore')
from pedal.core.commands import *
from pedal.tifa import tifa_analysis
from pedal.types.normalize import get_pedal_type_from_value, normalize_type
from pedal.types.new_types import is_subtype
VARS = {'i': '3', 'f': '2.5', 's': "'ab'", 'l': '[1, 2]', 't': '(1, 2)', 'b': 'True', 'st': '{1, 2}', 'd': "{'k': 1}"}
OPS = ['+', '-', '*', '/', '//', '%', '**', '<<', '>>', '|', '^', '&', '<', '<=', '>', '>=', '==', '!=', 'in', 'not in']
PRE = "\n".join(f"{k} = {v}" for k, v in VARS.items()) + "\n"
def exprs(depth):
    if depth == 0: return list(VARS)
    sub = exprs(depth - 1)
    return sub + [f"({a} {op} {b})" for op in OPS for a in exprs(0) for b in sub] + [f"({a} {op} {b})" for op in OPS[:7] for a in sub if a.startswith('(') for b in exprs(0)]
n = 0; kinds = {}; t0 = time.time()
def note(k, d):
    if k not in kinds or 'nonconf' in k: print(k, d)
    kinds[k] = kinds.get(k, 0) + 1
E = [e for e in exprs(1) if e.startswith('(')]
print("depth-1 expressions", len(E))
for e in E:
    code = PRE + f"r = {e}\nprint(r)\n"
    env = {}
    try: exec(code.replace("print(r)", ""), env); real = ('ok', env['r'])
    except TypeError: real = ('TypeError', None)
    except Exception as ex: real = (type(ex).__name__, None)
    clear_report(); contextualize_report(code); t = tifa_analysis(); n += 1
    if not t.success: note('tifa internal failure ' + repr(t.error)[:50], e); continue
    inc = [i for i in t.issues.get('incompatible_types', [])]
    if real[0] == 'TypeError' and not inc: note(f'missed TypeError', e)
    elif real[0] == 'ok' and not inc:
        ty = t.top_level_variables['r'].type
        try:
            ok = is_subtype(get_pedal_type_from_value(real[1]), ty)
        except Exception as ex: ok = 'EXC ' + repr(ex)[:40]
        if ok is not True: note(f'result nonconforming: {ok}', (e, type(real[1]).__name__, str(ty)[:30]))
    elif real[0] == 'ok' and inc:
        note('spurious incompatible (info only)', e)
print("exprs", n, "time", round(time.time() - t0, 1))
for k, v in sorted(kinds.items(), key=lambda kv: -kv[1]): print(v, k)
