import sys, time, itertools, traceback
from pedal.core.commands import *
from pedal.core.report import MAIN_REPORT
from pedal.core.submission import Submission
from pedal.sandbox.commands import *
REAL = sys.stdout; RS = time.sleep
MODES = {
 'ValueError': "raise ValueError('v')", 'TypeError': "1 + 'a'", 'NameError': "undefined_thing", 'KeyError': "{}['k']", 'IndexError': "[][1]", 'ZeroDivisionError': "1/0", 'AttributeError': "(1).nope", 'ImportError': "import nonexistent_mod_xyz",
 'OSError': "open('nonexistent_file.txt')", 'MemoryError': "raise MemoryError()", 'TimeoutError': "raise TimeoutError('t')", 'StopIteration': "next(iter([]))", 'AssertionError': "assert False, 'm'", 'ExceptionGroup': "raise ExceptionGroup('g', [ValueError(1)])",
 'Custom': "class Custom(Exception): pass\nraise Custom('c')", 'CustomArgs': "class CustomArgs(Exception):\n    def __init__(self, a, b): super().__init__(a)\nraise CustomArgs(1, 2)", 'BadStr': "class BadStr(Exception):\n    def __str__(self): raise RuntimeError('no')\nraise BadStr()",
 'BadRepr': "class BadRepr(Exception):\n    def __repr__(self): raise RuntimeError('no')\nraise BadRepr('x')", 'NonStrStr': "class NonStrStr(Exception):\n    def __str__(self): return 5\nraise NonStrStr()", 'Empty': "raise Exception()", 'NonStrArg': "raise Exception(5, [1])",
 'Chained': "try:\n    1/0\nexcept ZeroDivisionError as e:\n    raise ValueError('c') from e", 'BareRaise': "raise", 'RaiseInt': "raise 5", 'exit()': "exit()", 'quit()': "quit()", 'sys.exit': "import sys\nsys.exit()", 'sys.exit msg': "import sys\nsys.exit('bye')", 'SystemExit': "raise SystemExit(2)",
 'Recursion': "def rec(): return rec()\nrec()", 'compile()': "compile('1', 'f', 'eval')", 'eval()': "eval('1')", 'exec()': "exec('x=1')", 'globals()': "globals()", 'open py': "open('answer.py')", 'open w': "open('out.txt', 'w')", 'import pedal': "import pedal", 'from pedal': "from pedal.core import report",
 'Syntax': "x = (", 'Indent': "  x = 1\n y = 2", 'Tab': "if 1:\n\tx = 1\n        y = 2", 'NUL': "x = 1\x00", 'UntermStr': "x = 'abc", 'InFunc': "def inner():\n    return 1/0\ndef outer():\n    return inner()\nouter()", 'InMethod': "class K:\n    def m(self): raise ValueError('m')\nK().m()", 'InGen': "def g():\n    yield 1\n    raise ValueError('g')\nlist(g())", 'InComp': "[1/0 for _ in range(1)]",
}
def expected_line(code):
    try:
        exec(compile(code, 'answer.py', 'exec'), {'__name__': '__main__'})
    except BaseException as e:
        tb = traceback.extract_tb(e.__traceback__)
        if tb and tb[-1].filename == 'answer.py': return tb[-1].lineno, type(e).__name__
        return None, type(e).__name__
    return None, None
n = bad = 0; kinds = {}
def note(k, d):
    global bad
    bad += 1
    if k not in kinds: print(k, d)
    kinds[k] = kinds.get(k, 0) + 1
for (mname, code), entry, threaded, tracer in itertools.product(MODES.items(), ['run', 'call', 'evaluate', 'import'], [False, True], ['none', 'native', 'calls']):
    compile_fail = mname in ('Syntax', 'Indent', 'Tab', 'NUL', 'UntermStr')
    if entry in ('call', 'evaluate'):
        if compile_fail: continue
        main = "def target():\n" + "\n".join("    " + l for l in code.split("\n")) + "\n"
    elif entry == 'import':
        main = "import helper\n"
    else: main = code + "\n"
    files = {'answer.py': main}
    if entry == 'import': files['helper.py'] = code + "\n"
    n += 1
    clear_report(); contextualize_report(Submission(files=files, main_file='answer.py', main_code=main))
    sb = get_sandbox(); sb.threaded = threaded; sb.tracer_style = tracer; sb.allowed_time = 5
    tag = (mname, entry, threaded, tracer)
    try:
        if entry in ('call', 'evaluate'):
            run(); 
            if sb.exception is not None: note('setup failed', (tag, sb.exception)); continue
        n0 = len(MAIN_REPORT.feedback)
        if entry == 'run' or entry == 'import': run()
        elif entry == 'call': call('target')
        else: evaluate('target()')
    except BaseException as e:
        note(f'ESCAPED {type(e).__name__} [{mname}]', tag); sys.stdout = REAL; time.sleep = RS; sys.settrace(None); continue
    finally:
        if sys.stdout is not REAL or time.sleep is not RS: sys.stdout = REAL; time.sleep = RS
    new = [f for f in MAIN_REPORT.feedback[n0:] if f.category == 'runtime']
    if sb.exception is None: note(f'no exception [{mname}]', tag)
    if len(new) != 1: note(f'runtime feedback count {len(new)} [{mname}] {entry}', tag)
print("cases", n, "bad", bad)
for k, v in sorted(kinds.items(), key=lambda kv: -kv[1]): print(v, k)
