import io, operator, math, itertools, contextlib, time, warnings
warnings.filterwarnings('ignore')
from pedal.core.commands import *
from pedal.sandbox.commands import *
from pedal.sandbox.result import SandboxResult, unwrap_value, is_sandbox_result
contextualize_report("x=1"); run(); sb = get_sandbox()
class Full:
    def __init__(s, v): s.v = v
    def __add__(s, o): return Full(s.v + (o.v if isinstance(o, Full) else o))
    def __radd__(s, o): return Full(o + s.v)
    def __sub__(s, o): return Full(s.v - (o.v if isinstance(o, Full) else o))
    def __rsub__(s, o): return Full(o - s.v)
    def __mul__(s, o): return Full(s.v * (o.v if isinstance(o, Full) else o))
    def __rmul__(s, o): return Full(o * s.v)
    def __eq__(s, o): return isinstance(o, Full) and s.v == o.v
    def __lt__(s, o): return s.v < (o.v if isinstance(o, Full) else o)
    def __hash__(s): return hash(s.v)
    def __len__(s): return 3
    def __getitem__(s, i):
        if not 0 <= i < 3: raise IndexError(i)
        return s.v + i
    def __contains__(s, x): return x == s.v
    def __bool__(s): return bool(s.v)
    def __int__(s): return int(s.v)
    def __float__(s): return float(s.v)
    def __repr__(s): return f"Full({s.v})"
class NI:
    def __add__(s, o): return NotImplemented
    def __eq__(s, o): return NotImplemented
    def __repr__(s): return "NI()"
VALS = {'int': [7, -2], 'float': [2.5], 'bool': [True], 'str': ['ab'], 'list': [[1, 2]], 'tuple': [(1, 2)], 'dict': [{'a': 1}], 'set': [{1, 2}], 'none': [None], 'complex': [1+2j], 'full': [Full(3)], 'ni': [NI()]}
BIN = {n: getattr(operator, n) for n in ['add', 'sub', 'mul', 'truediv', 'floordiv', 'mod', 'pow', 'lshift', 'rshift', 'and_', 'or_', 'xor', 'matmul', 'eq', 'ne', 'lt', 'le', 'gt', 'ge', 'getitem']}
BIN['divmod'] = divmod; BIN['contains_in_proxy'] = operator.contains
UN = {'len': len, 'iter': lambda v: list(iter(v)), 'hash': hash, 'bool': bool, 'str': str, 'repr': repr, 'format': lambda v: format(v, ''), 'fmt2': lambda v: f"{v:>5}", 'int': int, 'float': float, 'complex': complex, 'round': round, 'round1': lambda v: round(v, 1),
      'trunc': math.trunc, 'floor': math.floor, 'ceil': math.ceil, 'abs': abs, 'neg': operator.neg, 'pos': operator.pos, 'invert': operator.invert, 'isinstance_int': lambda v: isinstance(v, int), 'isinstance_str': lambda v: isinstance(v, str), 'not': operator.not_, 'reversed': lambda v: list(reversed(v)), 'sorted': sorted, 'sum': sum, 'index': operator.index}
def P(v): return SandboxResult(v, 0, sb)
def same(a, b):
    a = unwrap_value(a); b = unwrap_value(b)
    try: return type(a) is type(b) and (a == b or (a != a and b != b))
    except Exception: return False
n = 0; kinds = {}
def note(k):
    kinds[k] = kinds.get(k, 0) + 1
buf = io.StringIO()
for (op, fn), (ca, va), (cb, vb) in itertools.product(BIN.items(), VALS.items(), VALS.items()):
    for a, b in itertools.product(va, vb):
        try: exp = fn(a, b); eok = True
        except Exception as e: exp = None; eok = False
        for side in ('left', 'right', 'both'):
            if op == 'contains_in_proxy' and side != 'left': continue
            n += 1
            x = P(a) if side in ('left', 'both') else a; y = P(b) if side in ('right', 'both') else b
            buf.seek(0); buf.truncate()
            with contextlib.redirect_stdout(buf):
                try: got = fn(x, y); gok = True
                except Exception as e: got = e; gok = False
            if buf.getvalue(): note(f"{op} {side} writes stdout")
            if gok and unwrap_value(got) is NotImplemented: note(f"{op} {side} [{ca},{cb}] returns NotImplemented")
            elif eok and not gok: note(f"{op} {side} [{ca},{cb}] raises {type(got).__name__} but real succeeds")
            elif not eok and gok: note(f"{op} {side} [{ca},{cb}] succeeds but real raises")
            elif eok and gok and not same(got, exp): note(f"{op} {side} [{ca},{cb}] wrong value")
for (op, fn), (ca, va) in itertools.product(UN.items(), VALS.items()):
    for a in va:
        try: exp = fn(a); eok = True
        except Exception: eok = False
        n += 1; buf.seek(0); buf.truncate()
        with contextlib.redirect_stdout(buf):
            try: got = fn(P(a)); gok = True
            except Exception as e: got = e; gok = False
        if buf.getvalue(): note(f"{op} writes stdout")
        if eok and not gok: note(f"{op} [{ca}] raises {type(got).__name__} but real succeeds")
        elif not eok and gok: note(f"{op} [{ca}] succeeds but real raises")
        elif eok and gok and not same(got, exp): note(f"{op} [{ca}] wrong value/type {type(unwrap_value(got)).__name__} vs {type(exp).__name__}")
print("applications", n, "distinct failing cells", len(kinds), "total", sum(kinds.values()))
import collections
byop = collections.Counter(k.split()[0] for k in kinds)
print(byop)
for k in sorted(kinds)[:400]:
    if any(w in k for w in ('eq ', 'lt ', 'hash', 'bool', 'len', 'iter', 'getitem', 'str', 'repr', 'isinstance', 'format', 'fmt2', 'int ', 'round', 'floor', 'ceil', 'abs', 'neg', 'index', 'sorted', 'sum', 'reversed', 'not')): print("  ", k)
