import itertools, string, time
from pedal.core.commands import *
from pedal.core.feedback import Feedback
from pedal.core.formatting import Formatter, HtmlFormatter
from pedal.core.report import MAIN_REPORT
from pedal.tifa.feedbacks import initialization_problem, unused_variable
from pedal.source.feedbacks import blank_source, not_enough_sections
from pedal.core.location import Location
class CondT(Feedback):
    category = 'instructor'; message_template = "T {a} and {b:name}"
    def condition(self): return True
class CondF(Feedback):
    category = 'instructor'; message_template = "F {a}"; else_message_template = "else {a:python_expression}"
    def condition(self): return False
class CondX(Feedback):
    category = 'instructor'; message_template = "X {a}"
    def condition(self): raise KeyError("cond")
class MsgX(Feedback):
    category = 'instructor'; message_template = "X {missing}"
class Args(Feedback):
    category = 'instructor'; message_template = "got {x:python_expression} line {location.line}"
    def __init__(self, x, **kw): super().__init__(x, fields={'x': x}, **kw)
    def condition(self, x): return x > 0
class MyFmt(Formatter):
    def name(self, n): return f"<<{n}>>"
    def python_expression(self, c): return f"`{c}`"
def render(template, fields, fmt):
    out = []
    for lit, fname, spec, conv in string.Formatter().parse(template):
        out.append(lit)
        if fname is None: continue
        base, *rest = fname.replace('[', '.').replace(']', '').split('.')
        v = fields[base]
        for r in rest: v = getattr(v, r) if not r.isdigit() else v[int(r)]
        val = str(v); spec = spec or ''
        cands = [m for m in fmt.available if spec.endswith(m)]
        if cands:
            m = cands[0]; val = getattr(fmt, m)(v); spec = spec[:-len(m)].rstrip(':')
        out.append(format(val, spec))
    return ''.join(out)
CASES = []
for cls, args in [(Feedback, ()), (CondT, ()), (CondF, ()), (CondX, ()), (MsgX, ()), (Args, (1,)), (Args, (-1,)), (gently, ('g',)), (explain, ('e',)), (compliment, ('c',)), (give_partial, (.5,)), (guidance, ('gu',)), (set_correct, ()), (system_error, ()),
                  (initialization_problem, (Location(3), 'v')), (blank_source, ()), (not_enough_sections, (2, 1))]:
    for kw in [dict(), dict(message="explicit"), dict(message_template="tpl {a}"), dict(label='lab', title='Ti'), dict(activate=False), dict(delay_condition=True), dict(muted=True, score='5%'), dict(location=7)]:
        for extra in [dict(), dict(a=1, b='nm'), dict(fields={'a': [1, 2], 'b': 'q'})]:
            CASES.append((cls, args, {**kw, **extra}))
n = bad = 0; kinds = {}; t0 = time.time()
def note(k, d):
    global bad
    bad += 1
    if kinds.get(k, 0) < 40 and 'Args' not in str(d): print(k, d)
    kinds[k] = kinds.get(k, 0) + 1
for fmtcls in (None, HtmlFormatter, MyFmt):
    for cls, args, kw in CASES:
        clear_report()
        if fmtcls: set_formatter(fmtcls)
        fmt = MAIN_REPORT.format
        n += 1
        fb = None; exc = None
        before = (len(MAIN_REPORT.feedback), len(MAIN_REPORT.ignored_feedback))
        try: fb = cls(*args, **{k: (dict(v) if isinstance(v, dict) else v) for k, v in kw.items()})
        except Exception as e: exc = e
        inact = MAIN_REPORT.feedback; ign = MAIN_REPORT.ignored_feedback
        tag = f"{cls.__name__} {sorted(kw)}"
        if kw.get('delay_condition'):
            if fb is None: note('delay raised', (tag, repr(exc))); continue
            if len(inact) + len(ign) != 0: note('delayed but recorded', tag)
            if bool(fb): note('delayed truthy', tag)
            continue
        if exc is not None:
            # must be recorded untriggered with error status
            objs = [f for f in ign if type(f) is cls]
            if len(inact) != 0 or len(objs) != 1 or objs[0]._status != 'error' or bool(objs[0]): note('error path wrong', (tag, repr(exc)[:50], len(inact), len(ign)))
            expected_exc = cls in (CondX,) or (cls is MsgX and 'message' not in kw and not kw.get('activate') is False) or ('message_template' in kw or cls in (CondT, CondF)) 
            continue
        cnt = sum(1 for f in inact if f is fb) + sum(1 for f in ign if f is fb)
        if cnt != 1: note('not exactly once', (tag, cnt))
        if (fb in inact) != bool(fb): note('list/truth mismatch', tag)
        # expected trigger
        if cls in (CondT,): trig = True
        elif cls is CondF: trig = False
        elif cls is Args: trig = args[0] > 0
        else: trig = kw.get('activate', True)
        if bool(fb) != trig: note('wrong trigger', (tag, bool(fb), trig))
        # message
        if trig:
            if 'message' in kw: exp = kw['message']
            elif cls in (gently, explain, compliment, guidance): exp = args[0]
            else:
                tpl = kw.get('message_template', cls.message_template)
                try: exp = render(tpl, fb.fields, fmt) if tpl is not None else Feedback.DEFAULT_FEEDBACK_MESSAGE
                except Exception as e: exp = ('RENDERFAIL', repr(e))
            if fb.message != exp: note('message mismatch', (tag, fmtcls and fmtcls.__name__, fb.message, exp))
print("cases", n, "bad", bad, "time", round(time.time() - t0, 1))
for k, v in sorted(kinds.items(), key=lambda kv: -kv[1]): print(v, k)
