import ast, itertools, time
from pedal.core.commands import *
from pedal.core.report import MAIN_REPORT
from pedal.cait.find_node import find_operation, find_function_calls
from pedal.cait.cait_api import find_asts
from pedal.assertions.static import *
STM = ["a = 1 <= 2", "b = 3 >= 2 > 1", "c = 1 << 2", "d = 8 >> 1 >> 1", "e = 1 < 2 < 3", "f = not a", "g = -1", "h = 1 + 2 + 3", "i = a and b and c", "j = a or (b and c)", "k = True", "l = 1.0", "m = 'x' + 'x'", "n = [1, 2][0]", "o = {'k': 1}",
       "p = ~1", "q = 2 ** 3 // 2 % 2", "r = a is not None", "s = 1 in [1]", "t = 1 not in [2]", "u = a == b != c", "print(1)", "print(len([1]), max(1, 2))", "obj.method(1).other()", "import math", "import os.path as osp", "from random import randint", "def fn(x=1 + 1):\n    return x * 2",
       "for z in range(3):\n    print(z)", "while a:\n    a = a - 1", "if a:\n    pass\nelif b:\n    print('x')\nelse:\n    print(None)", "w = lambda v: v + 1", "x = [y * 2 for y in range(2) if y]", "y = a if b else c", "z = f'{a}b'", "v = 1 | 2 ^ 3 & 4", "t2 = a @ b", "u2 = +1"]
PYOPS = {'==': ast.Eq, '!=': ast.NotEq, '<': ast.Lt, '<=': ast.LtE, '>': ast.Gt, '>=': ast.GtE, 'is': ast.Is, 'is not': ast.IsNot, 'in': ast.In, 'not in': ast.NotIn, 'and': ast.And, 'or': ast.Or,
         '+': ast.Add, '-': ast.Sub, '*': ast.Mult, '/': ast.Div, '//': ast.FloorDiv, '%': ast.Mod, '**': ast.Pow, '<<': ast.LShift, '>>': ast.RShift, '|': ast.BitOr, '^': ast.BitXor, '&': ast.BitAnd, '@': ast.MatMult, 'not': ast.Not, '~': ast.Invert}
def count_op(tree, sym):
    cls = PYOPS[sym]; c = 0
    for nd in ast.walk(tree):
        if isinstance(nd, ast.Compare): c += sum(isinstance(o, cls) for o in nd.ops)
        elif isinstance(nd, (ast.BoolOp, ast.BinOp, ast.UnaryOp)): c += isinstance(nd.op, cls)
    return c
n = bad = 0; kinds = {}; shown = 0; t0 = time.time()
def note(k, code, d):
    global bad, shown
    bad += 1; kinds[k] = kinds.get(k, 0) + 1
    if kinds[k] <= 1: print(k, repr(code)[:80], d)
progs = [(s,) for s in STM] + list(itertools.product(STM[:20], repeat=2))
for prog in progs:
    code = "\n".join(prog) + "\n"; tree = ast.parse(code)
    clear_report(); contextualize_report(code)
    for sym in PYOPS:
        n += 1
        exp = count_op(tree, sym); got = len(find_operation(sym))
        if exp != got: note(f'op {sym}', code, (exp, got))
        for at_least in (exp, exp + 1):
            if at_least < 1: continue
            fb = ensure_operation(sym, at_least=at_least)
            if bool(fb) != (exp < at_least): note(f'ensure_op {sym}', code, (exp, at_least, bool(fb)))
        for at_most in (exp - 1, exp):
            if at_most < 0: continue
            fb = prevent_operation(sym, at_most=at_most)
            if bool(fb) != (exp > at_most): note(f'prevent_op {sym}', code, (exp, at_most, bool(fb)))
    for name in ['print', 'len', 'max', 'method', 'other', 'range', 'fn', 'nothere']:
        exp = sum(1 for nd in ast.walk(tree) if isinstance(nd, ast.Call) and ((isinstance(nd.func, ast.Name) and nd.func.id == name) or (isinstance(nd.func, ast.Attribute) and nd.func.attr == name)))
        got = len(find_function_calls(name)); n += 1
        if exp != got: note(f'call {name}', code, (exp, got))
        if bool(ensure_function_call(name, at_least=max(exp, 1))) != (exp < max(exp, 1)): note('ensure_call', code, name)
        if bool(prevent_function_call(name, at_most=exp)) != False: note('prevent_call', code, name)
        if exp and bool(prevent_function_call(name, at_most=exp - 1)) != True: note('prevent_call2', code, name)
    for lit in [1, 2, 1.0, True, 'x', 'k', 0, 3]:
        exp = sum(1 for nd in ast.walk(tree) if isinstance(nd, ast.Constant) and type(nd.value) is type(lit) and nd.value == lit); n += 1
        fb = ensure_literal(lit, at_least=max(exp, 1)); got = fb.fields.get('use_count')
        if got != exp: note(f'literal {lit!r}', code, (exp, got))
    for lt, cls in [(int, int), (float, float), (str, str), (bool, bool), (list, list), (dict, dict)]:
        if lt in (list, dict): exp = sum(1 for nd in ast.walk(tree) if isinstance(nd, ast.List if lt is list else ast.Dict))
        else: exp = sum(1 for nd in ast.walk(tree) if isinstance(nd, ast.Constant) and type(nd.value) is lt)
        fb = ensure_literal_type(lt, at_least=max(exp, 1)); got = fb.fields.get('use_count'); n += 1
        if got != exp: note(f'littype {lt.__name__}', code, (exp, got))
    for nm in ['For', 'While', 'If', 'BinOp', 'Call', 'Lambda', 'ListComp', 'IfExp', 'JoinedStr', 'Constant', 'Name', 'Import', 'ImportFrom', 'FunctionDef', 'Compare', 'Try']:
        exp = sum(1 for nd in ast.walk(tree) if type(nd).__name__ == nm); got = len(find_asts(nm)); n += 1
        if exp != got: note(f'ast {nm}', code, (exp, got))
    for mod in ['math', 'os', 'os.path', 'random', 'sys']:
        exp = any((isinstance(nd, ast.Import) and any(a.name == mod for a in nd.names)) or (isinstance(nd, ast.ImportFrom) and nd.module == mod) for nd in ast.walk(tree)); n += 1
        if bool(ensure_import(mod)) != (not exp): note(f'ensure_import {mod}', code, exp)
        if bool(prevent_import(mod)) != exp: note(f'prevent_import {mod}', code, exp)
print("queries", n, "bad", bad, "time", round(time.time() - t0, 1))
for k, v in sorted(kinds.items(), key=lambda kv: -kv[1]): print(v, k)
