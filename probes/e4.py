import ast
from pedal.core.commands import *
from pedal.core.report import MAIN_REPORT
from pedal.source import verify, set_source, next_section
from pedal.source.sections import separate_into_sections, stop_sections
from pedal.cait.find_node import find_operation, find_function_calls
from pedal.assertions.static import *
from pedal.tifa import tifa_analysis
from pedal.sandbox.commands import run, get_sandbox
# C08
code = "a = 1 <= 2\nb = 3 >= 2\nc = 1 << 2\nd = 8 >> 1\ne = 1 < 2 < 3\nf = not a\ng = -1\nh = 1 + 2 + 3\ni = a and b and c\nj = 1 if a else 2\nk = True\nl=1.0"
contextualize_report(code)
for op in ['<=', '>=', '<<', '>>', '<', 'not', '+', 'and', '-', '~', 'is not', '@']:
    n = len(find_operation(op))
    print("C08 op", op, n)
print("ensure_literal(1) count", bool(ensure_literal(1, at_least=6)), [f.fields.get('use_count') for f in MAIN_REPORT.feedback+MAIN_REPORT.ignored_feedback][-1])
print("ensure_literal(True)", bool(ensure_literal(True, at_least=2)), [f.fields.get('use_count') for f in MAIN_REPORT.feedback+MAIN_REPORT.ignored_feedback][-1])
print("ensure_literal(1.0)", bool(ensure_literal(1.0, at_least=2)), [f.fields.get('use_count') for f in MAIN_REPORT.feedback+MAIN_REPORT.ignored_feedback][-1])
print("literal type int", bool(ensure_literal_type(int, at_least=100)), [f.fields.get('use_count') for f in MAIN_REPORT.feedback+MAIN_REPORT.ignored_feedback][-1])
# C12
for src in ["x = 1\x00", "x = (", "  x=1", "if True:\nx=1", "x\t=\t1\n\tif", "", "   \n", "\x0c", "x = 1\r\ny = 2", "é = 1", "x = '\\", "def f(:\n pass", "x = 1\n\x00", "if 1:\n\tx=1\n        y=2", "\\", "(" * 300, "x = 0777", "'''", "﻿x=1", "a\x00b"]:
    clear_report(); contextualize_report(src)
    try:
        cp = None
        try: ast.parse(src, 'answer.py')
        except BaseException as e: cp = e
        r = verify()
        fb = [(f.label, f.location.line if f.location else None) for f in MAIN_REPORT.feedback if f.category=='syntax']
        print("C12", repr(src)[:30], "verify", r, fb, "| cpython:", type(cp).__name__, getattr(cp,'lineno',None))
    except BaseException as e:
        print("C12 RAISED", repr(src)[:30], type(e).__name__, str(e)[:60], "| cpython:", type(cp).__name__, getattr(cp,'lineno',None))
