import itertools
from pedal.core.commands import *
from pedal.core.report import MAIN_REPORT
from pedal.tifa import tifa_analysis
from pedal.types.normalize import get_pedal_type_from_value, normalize_type
from pedal.types.new_types import is_subtype
vals = {'int': '3', 'float': '2.5', 'str': "'ab'", 'list': '[1, 2]', 'tuple': '(1, 2)'}
ops = ['+', '-', '*', '/', '//', '%', '**', '<', '==', 'in']
bad = 0
for op in ops:
    for (ln, lv), (rn, rv) in itertools.product(vals.items(), repeat=2):
        code = f"a = {lv}\nb = {rv}\nc = a {op} b\nprint(c)\n"
        clear_report(); contextualize_report(code)
        t = tifa_analysis()
        try:
            env = {}; exec(code.replace('print(c)',''), env); real = ('ok', env['c'])
        except TypeError as e: real = ('TypeError', None)
        except Exception as e: real = (type(e).__name__, None)
        if not t.success:
            print("C19 TIFA FAIL", code.split('\n')[2], lv, rv, t.error); bad+=1; continue
        inc = 'incompatible_types' in t.issues
        if real[0] == 'TypeError' and not inc:
            print("C19 MISSED TypeError", ln, op, rn); bad += 1
        if real[0] == 'ok' and not inc:
            ty = t.top_level_variables['c'].type
            try:
                vt = get_pedal_type_from_value(real[1])
                ok = is_subtype(vt, ty)
            except Exception as e:
                ok = 'EXC '+repr(e)
            if ok is not True:
                print("C19 result type nonconform", ln, op, rn, "tifa", ty, "value", repr(real[1]), ok); bad += 1
print("bad", bad)
for v in [(1, 'a'), [1, 2.5], {'a': 1}, {1, 2}, [(1, 2)], (), [], {}, None, [None, 1], {'a': [1]}, ((1,),)]:
    try:
        t1 = get_pedal_type_from_value(v)
        print("C19 value", v, t1, is_subtype(t1, t1), is_subtype(t1, t1), is_subtype(t1, normalize_type(type(v)).as_type()))
    except Exception as e:
        print("C19 value EXC", v, repr(e))
