import io, sys, itertools, traceback, contextlib, time
from pedal.core.commands import *
from pedal.core.report import MAIN_REPORT
from pedal.sandbox.commands import run, call, get_sandbox, evaluate
from pedal.sandbox.result import unwrap_value
STM = [
 "x = 5", "y = x + 2", "x += 1", "s = 'ab' * 2", "print(x)", "print('a', 'b', sep='-', end='!')", "print()", "n = input()", "m = int(input('num? '))", "print(n)",
 "lst = [1, 2, 3]", "lst.append(x)", "d = {'k': 1}", "t = (1, 'a')", "for i in range(2):\n    print(i)", "while x > 3:\n    x -= 1", "if x > 2:\n    z = 1\nelse:\n    z = 2",
 "def f(a, b=2):\n    return a + b", "r = f(1)", "r = f(1, b=5)", "class P:\n    def __init__(self, v):\n        self.v = v\n    def get(self):\n        return self.v", "p = P(3)", "print(p.get())",
 "sq = [i*i for i in range(3)]", "try:\n    q = 1 / 0\nexcept ZeroDivisionError:\n    q = -1", "import math", "rt = math.sqrt(16)", "print(undefined_name)", "w = 1 / 0", "print(lst[10])",
 "if __name__ == '__main__':\n    main_ran = True", "print(f'{x:>4}')", "def g():\n    global x\n    x = 100", "g()", "len = 5", "print(len([1]))", "print(sorted(d.items()))", "print(type(x).__name__)", "u = str(x) + 'q'", "v = x // 2 + x % 2 + x ** 2",
]
def plain(code, inputs):
    inputs = list(inputs)
    out = io.StringIO()
    def inp(prompt=''):
        print(prompt)
        return inputs.pop(0) if inputs else '0'
    env = {'__name__': '__main__', 'input': inp}
    outcome = ('ok', None)
    try:
        comp = compile(code, 'answer.py', 'exec')
        with contextlib.redirect_stdout(out):
            exec(comp, env)
    except BaseException as e:
        tb = traceback.extract_tb(e.__traceback__)
        line = [fr.lineno for fr in tb if fr.filename == 'answer.py']
        outcome = (type(e).__name__, line[-1] if line else None)
    env.pop('input', None)
    return out.getvalue(), env, outcome
def summarize(ns):
    res = {}
    for k, v in ns.items():
        if k.startswith('__'): continue
        if isinstance(v, (int, float, str, bool, type(None), list, tuple, dict, set)): res[k] = ('data', repr(v))
        else: res[k] = ('obj', type(v).__name__)
    return res
clear_report(); contextualize_report("\n"); _sb = get_sandbox(); _sb.run(); CAL = set(summarize(_sb.data))
print("calibration extras", CAL)
n = bad = 0; t0 = time.time(); shown = 0
progs = list(itertools.chain(((s,) for s in STM), itertools.product(STM, repeat=2)))
for prog in progs:
    code = "\n".join(prog) + "\n"
    for inputs in ([], ['3'], ['3', 'x']):
        n += 1
        pout, pns, poutcome = plain(code, inputs)
        clear_report(); contextualize_report(code)
        sb = get_sandbox(); sb.set_input(list(inputs))
        sb.run()
        sout = sb.raw_output
        # strip echoed prompts: pedal prints prompt+"\n" for each input() call
        ex = sb.exception
        soutcome = ('ok', None) if ex is None else (type(ex).__name__, sb.feedback.location.line if sb.feedback and sb.feedback.location else None)
        sns = summarize(sb.data); pns_s = summarize(pns)
        diffs = []
        if soutcome != poutcome: diffs.append(('outcome', poutcome, soutcome))
        sns = {k: v for k, v in sns.items() if not (k in CAL and k not in pns_s)}
        if sns != pns_s: diffs.append(('globals', {k: (pns_s.get(k), sns.get(k)) for k in set(pns_s) | set(sns) if pns_s.get(k) != sns.get(k)}))
        # output compare modulo prompts: remove lines equal to prompts? crude: compare after deleting 'num? \n' and bare '\n' echoes count
        import re
        so = sout
        if soutcome == poutcome and so != pout:
            # remove the bare newline echoes of promptless input(): count them
            diffs.append(('output', pout, sout))
        if diffs:
            bad += 1
            if shown < 15: shown += 1; print("----", repr(code), inputs, diffs)
print("execs", n, "bad", bad, "time", round(time.time()-t0, 1))
