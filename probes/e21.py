import itertools, re, time
from pedal.core.commands import *
from pedal.core.report import MAIN_REPORT
from pedal.source import verify, next_section
from pedal.source.sections import separate_into_sections, stop_sections, DEFAULT_SECTION_PATTERN
from pedal.tifa import tifa_analysis
from pedal.sandbox.commands import run, get_sandbox
from pedal.resolvers import simple
KINDS = ['clean', 'name', 'syntax', 'blank', 'marker', 'near']
def mk(kinds):
    lines = []
    for i, k in enumerate(kinds):
        if k == 'clean': lines.append(f"a{i} = {i}")
        elif k == 'name': lines.append(f"print(u{i})")
        elif k == 'syntax': lines.append(f"x{i} = (")
        elif k == 'blank': lines.append("")
        elif k == 'marker': lines.append(f"##### Part {i}")
        elif k == 'near': lines.append(f"#### Part {i}")
    return "\n".join(lines) + "\n"
n = bad = 0; kinds_bad = {}; shown = 0; t0 = time.time()
def note(k, src, detail):
    global bad, shown
    bad += 1; kinds_bad[k] = kinds_bad.get(k, 0) + 1
    if shown < 14 and kinds_bad[k] <= 2: shown += 1; print(k, repr(src), detail)
for L in (1, 2, 3, 4):
    for ks in itertools.product(KINDS, repeat=L):
        src = mk(ks); orig = src.split("\n")
        for independent in (True, False):
            n += 1
            clear_report(); contextualize_report(src)
            try:
                separate_into_sections(independent=independent)
                secs = MAIN_REPORT['source']['sections']
                if ''.join(secs) != src: note('lossy', src, secs)
                nsec = (len(secs) - 1) // 2
                for k in range(1, nsec + 3):
                    n0 = len(MAIN_REPORT.feedback)
                    try: next_section()
                    except Exception as e:
                        note('next_section RAISED ' + type(e).__name__ + (' past-end' if k > nsec else ' in-range'), src, k); break
                    if k > nsec:
                        if not any(f.label == 'not_enough_sections' for f in MAIN_REPORT.feedback[n0:]): note('no not_enough feedback', src, k)
                        continue
                    code = MAIN_REPORT.submission.main_code
                    expect = secs[2*k] if independent else ''.join(secs[:2*k+1])
                    if code != expect: note('wrong chunk', src, (k, code, expect))
                    ok = verify()
                    if ok:
                        tifa_analysis(); run()
                    for f in MAIN_REPORT.feedback[n0:]:
                        if f.location is None or f.location.line is None or f.label in ('unused_variable',) and False: continue
                        ln = f.location.line
                        tok = None
                        if f.category == 'syntax': tok = 'x'
                        elif f.label in ('initialization_problem', 'name_error'): tok = 'u'
                        elif f.label == 'unused_variable': tok = 'a'
                        if tok is None: continue
                        if tok == 'x':
                            import ast as _ast
                            try: _ast.parse(code); exp = None
                            except SyntaxError as e2: exp = e2.lineno + (len(''.join(secs[:2*k]).split("\n")) - 1 if independent else 0)
                            if exp != ln: note('line syntax', src, (k, independent, ln, exp))
                            continue
                        if not (1 <= ln <= len(orig)) or (tok + str(ln-1)) not in orig[ln-1]:
                            note(f'line {f.label}', src, (k, independent, ln, orig[ln-1] if 1 <= ln <= len(orig) else None))
                        if f.category == 'runtime':
                            for mline in re.findall(r"Line (\d+) of file", f.message):
                                if not (1 <= int(mline) <= len(orig)) or 'print(u' not in orig[int(mline)-1]: note('traceback line', src, (k, mline))
                stop_sections()
                if MAIN_REPORT.submission.main_code != src: note('not restored', src, None)
            except Exception as e:
                note('RAISED ' + type(e).__name__, src, repr(e)[:60])
print("cases", n, "bad", bad, "time", round(time.time() - t0, 1))
for k, v in sorted(kinds_bad.items(), key=lambda kv: -kv[1]): print(v, k)
