import itertools, warnings, time
warnings.filterwarnings('ignore')
from pedal.core.commands import *
from pedal.tifa import tifa_analysis
from pedal.types.new_types import BUILTIN_NAMES, StrType, ListType, DictType, SetType, FileType, NumType, IntType, FloatType, TupleType, _MODULE_LOADERS
import pedal.types.builtin
print("builtin names", len(BUILTIN_NAMES)); 
tables = {'str': ("'ab'", StrType.fields), 'list': ("[1, 2]", ListType.fields), 'dict': ("{'k': 1}", DictType.fields), 'set': ("{1, 2}", SetType.fields), 'file': ("open('f.txt')", FileType.fields), 'tuple': ("(1, 2)", getattr(TupleType, 'fields', {}))}
for k, (r, f) in tables.items(): print(k, len(f), sorted(f)[:60])
print("modules", sorted(_MODULE_LOADERS))
ARGS = ["", "1", "'a'", "[1, 2]", "x", "lambda v: v", "1, 2", "'a', 'b'", "[1], 0", "key=len", "x, key=lambda v: v", "None, x"]
progs = []
for name in sorted(BUILTIN_NAMES):
    if not name.isidentifier(): continue
    for a in ARGS:
        progs.append(f"x = [3, 1]\nr = {name}({a})\nprint(r)\n")
for k, (recv, fields) in tables.items():
    for m in sorted(fields):
        for a in ARGS[:9]:
            progs.append(f"x = [3, 1]\no = {recv}\nr = o.{m}({a})\nprint(r)\n")
n = 0; kinds = {}; t0 = time.time()
for code in progs:
    try: compile(code, 'x', 'exec')
    except SyntaxError: continue
    n += 1; clear_report(); contextualize_report(code)
    try: t = tifa_analysis()
    except BaseException as e: kinds['RAISED ' + repr(e)[:60]] = kinds.get('RAISED ' + repr(e)[:60], 0) + 1; continue
    if not t.success:
        call = code.split("\n")[-3] if 'o = ' not in code else code.split("\n")[-3]
        k = f"{call.split('(')[0].replace('r = ', '')}: {repr(t.error)[:70]}"
        if k not in kinds: print("FAIL", repr(code.split(chr(10))[-3]), repr(t.error)[:90])
        kinds[k] = kinds.get(k, 0) + 1
print("programs", n, "failing kinds", len(kinds), "time", round(time.time() - t0, 1))
for k, v in sorted(kinds.items()): print(v, k)
