from pedal.core.commands import *
from pedal.core.report import MAIN_REPORT
from pedal.tifa import tifa_analysis
forms = ["x = 1", "x: int = 1", "x = y = 2", "a, b = 1, 2", "a, *b = [1,2,3]", "x = [i for i in range(3)]", "x = {i: i for i in range(3)}", "x = {i for i in range(3)}", "x = (i for i in range(3))",
 "x = lambda a: a", "def f(a, b=1, *c, d, **e):\n    return a\nf(1, d=2)", "class A:\n    x = 1\n    def m(self):\n        return self.x\nA().m()", "try:\n    x = 1\nexcept ValueError as e:\n    print(e)\nelse:\n    pass\nfinally:\n    pass",
 "with open('f') as f:\n    pass", "while True:\n    break\nelse:\n    pass", "for i in range(3):\n    continue", "import math\nmath.sqrt(4)", "from math import sqrt as s\ns(4)", "x = 1 if True else 2", "x = f'{1}a'", "x = [1,2][0:1]", "x = not True", "x = -1", "x = 1 < 2 < 3",
 "del x", "global g", "def f():\n    global g\n    g = 1\nf()", "def f():\n    nonlocal n", "assert True, 'm'", "raise ValueError('x')", "x = yield", "def g():\n    yield 1\n    yield from [1]\ng()", "async def f():\n    await g()", "x = (y := 3)", "match 1:\n    case 1:\n        pass",
 "x = 1; x += 1", "x = [1]; x[0] += 1", "x = ...", "x = b'ab'", "x = 1j", "x = {**{'a': 1}}", "print(*[1,2])", "x = [*[1], 2]", "@staticmethod\ndef f(): pass", "type X = int", "x = 'a' 'b'", "x = [1,2,3][::2]", "x = {'a':1}['a']", "x = 'abc'.upper().lower()", "x = [].append(1)", "try:\n    pass\nexcept* ValueError:\n    pass",
 "def f[T](a: T) -> T:\n    return a", "x = 1 @ 2", "import os.path", "from . import x", "x = sorted([3,1], key=lambda v: v)", "x = max(1, 2)", "x = 'a'.join(['b'])", "x = {}.get('a')", "x = {'a': 1}.items()", "for k, v in {'a': 1}.items():\n    print(k, v)", "x = input()\ny = int(x)", "x = list(range(3))", "x = str(1) + 'a'", "x = len([1])", "x = abs(-1)", "x = round(1.5)", "x = sum([1,2])", "x = open('a').read()", "x = [1,2].index(1)", "x = 'a b'.split()", "x = zip([1],[2])", "x = enumerate([1])", "x = reversed([1])", "x = isinstance(1, int)", "x = type(1)", "x = dict(a=1)", "x = set([1])", "x = tuple([1])", "x = float('1')", "x = bool(1)", "x = min([1])", "x = any([True])", "x = all([True])", "x = map(str, [1])", "x = filter(None, [1])", "x = 'a'.format(1)", "x = 'a' % 1", "x = chr(65)", "x = ord('a')", "x = divmod(1, 2)", "x = pow(2, 3)", "x = [1,2].pop()", "x = {'a':1}.keys()", "x = {'a':1}.values()", "x = 'abc'.find('b')", "x = 'abc'.replace('a','b')", "x = 'abc'.strip()", "x = 'abc'.startswith('a')", "x = [3,1].sort()", "x = [1].copy()", "x=[1]\nx.extend([2])", "x=[1]\nx.insert(0,2)", "x=[1]\nx.remove(1)", "x=[1]\nx.reverse()", "x=[1].count(1)", "x = 'a'.isdigit()", "x = {1}.union({2})", "x={1}\nx.add(2)", "x = {'a':1}\nx.update({'b':2})", "x = {'a':1}.pop('a')"]
bad=0
for code in forms:
    try:
        compile(code, 'x', 'exec')
    except SyntaxError as e:
        continue
    clear_report(); contextualize_report(code)
    try:
        t = tifa_analysis()
        if not t.success: print("C18 FAIL", repr(code)[:60], repr(t.error)[:100]); bad+=1
        else:
            n = len(MAIN_REPORT.feedback)+len(MAIN_REPORT.ignored_feedback)
            t2 = tifa_analysis(); n2=len(MAIN_REPORT.feedback)+len(MAIN_REPORT.ignored_feedback)
            if n!=n2 or t2 is not t: print("C18 nonidem", code)
            # rerun from scratch
            iss = {k:[(i.fields.get('name'), i.location.line if i.location else None) for i in v] for k,v in t.issues.items()}
            clear_report(); contextualize_report(code); t3 = tifa_analysis()
            iss3 = {k:[(i.fields.get('name'), i.location.line if i.location else None) for i in v] for k,v in t3.issues.items()}
            if iss != iss3: print("C18 nondeterministic", code, iss, iss3)
    except BaseException as e:
        print("C18 RAISED", repr(code)[:60], repr(e)[:100]); bad+=1
print("bad", bad, "of", len(forms))
