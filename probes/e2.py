import sys, time
from pedal.core.commands import *
from pedal.core.report import MAIN_REPORT
from pedal.sandbox.commands import *
REAL=sys.stdout; RS=time.sleep
def state():
    return dict(stdout=sys.stdout is REAL, sleep=time.sleep is RS, trace=sys.gettrace())
def t(name, code, **kw):
    contextualize_report(code)
    sb = get_sandbox()
    for k,v in kw.items(): setattr(sb,k,v)
    mods = set(sys.modules)
    try:
        run()
        r = ('returned', type(sb.exception).__name__, [(f.category,f.label,f.title, f.location.line if f.location else None) for f in MAIN_REPORT.feedback])
    except BaseException as e:
        r = ('RAISED', type(e).__name__, str(e)[:60])
    st = state(); st['mods']= sorted(set(sys.modules)^mods)[:5]; st['stacks']=(len(sb._current_patches), len(sb._current_stdout))
    sys.stdout = REAL; time.sleep = RS
    print(name, r, st)
t("ok", "x=1")
t("valueerror", "x=1\nraise ValueError('a')")
t("badstr", "class E(Exception):\n    def __str__(self): raise RuntimeError('no')\nraise E()")
t("badrepr", "class E(Exception):\n    def __repr__(self): raise RuntimeError('no')\n    def __str__(self): return ''\nraise E()")
t("sysexit", "import sys\nsys.exit(3)")
t("exit()", "exit()")
t("raise SystemExit", "raise SystemExit")
t("KeyboardInterrupt", "raise KeyboardInterrupt")
t("GeneratorExit", "raise GeneratorExit")
t("BaseExc sub", "class B(BaseException): pass\nraise B()")
t("recursion", "def f(): return f()\nf()")
t("syntax", "x = (")
t("nul", "x = 1\x00")
t("eval", "eval('1')")
t("open", "open('../x.py')")
t("import pedal", "import pedal")
t("from pedal", "from pedal.core import report")
t("native trace", "x=1\nraise KeyError('k')", tracer_style='native')
t("native trace BaseExc", "class B(BaseException): pass\nraise B()", tracer_style='native')
t("exception group", "raise ExceptionGroup('g', [ValueError(1)])")
t("error in function", "def f():\n    return 1/0\nf()")
t("import json leaves module?", "import colorsys")
t("raise class w/ required args", "class E(Exception):\n    def __init__(self, a, b): super().__init__(a)\nraise E(1,2)")
t("exc empty message", "raise Exception()")
t("exc non-str arg", "raise Exception(5)")
t("stopiteration", "next(iter([]))")
t("assert", "assert False")
t("sys.stdout.write", "import sys\nsys.stdout.write('a')")
