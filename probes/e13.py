from pedal.core.commands import *
from pedal.sandbox.commands import run, call, get_sandbox, evaluate
from pedal.sandbox.result import unwrap_value
code = "def ident(a):\n    return a\ndef two(a, b=3):\n    return (a, b)\ndef boom(a):\n    return 1/a\ndef pr(a):\n    print(a)\ndef mut(a):\n    a.append(1)\n    return a\ndef kw(**k):\n    return sorted(k.items())\nclass O:\n    def __init__(s, v): s.v = v\n    def __eq__(s, o): return isinstance(o, O) and s.v == o.v\n    def __repr__(s): return 'O(%r)' % s.v\n"
env = {}; exec(code, env)
contextualize_report(code); run()
sb = get_sandbox()
vals = [0, -1, 2.5, float('inf'), float('-inf'), float('nan'), True, None, "a'b", 'a"b', 'a\nb', 'a\\b', [1, [2]], {'a': [1]}, (1,), (), {1, 2}, set(), frozenset({1}), list(range(100)), 'x'*300, 1e100, 1e-7, 10**30, b'ab', complex(1,2), range(3), env['O'](3), [env['O'](1)], {'k': float('inf')}, type, len, ...]
bad = 0
for fn in ['ident', 'two', 'boom', 'mut']:
    for v in vals:
        try: exp = ('ok', env[fn](v if fn != 'mut' or not isinstance(v, list) else list(v)))
        except Exception as e: exp = ('exc', type(e).__name__)
        before = set(sb.data)
        try:
            r = call(fn, v if fn != 'mut' or not isinstance(v, list) else list(v))
            raw = unwrap_value(r)
            got = ('exc', type(raw).__name__) if isinstance(raw, Exception) else ('ok', raw)
        except BaseException as e:
            got = ('RAISED', type(e).__name__, str(e)[:50])
        same = (exp[0] == got[0]) and (exp[1] == got[1] or (exp[1] != exp[1] and got[1] != got[1]) or repr(exp[1]) == repr(got[1]))
        leftover = set(sb.data) - before - {'_'}
        if not same or leftover:
            bad += 1; print("C06 call MISMATCH", fn, repr(v)[:40], "expected", repr(exp)[:60], "got", repr(got)[:80], "leftover", leftover)
print("kw", unwrap_value(call('kw', x=1, y='a')), unwrap_value(call('two', 1, b=[1,2])))
print("bad", bad)
