import ast
from pedal.core.commands import *
from pedal.cait.cait_api import find_matches
def show(pattern, code):
    clear_report(); contextualize_report(code)
    ms = find_matches(pattern)
    print("PATTERN", repr(pattern), "CODE", repr(code), "->", len(ms))
    for m in ms:
        pairs = [(type(p.astNode).__name__, getattr(p.astNode,'lineno',None), type(s.astNode).__name__, getattr(s.astNode,'lineno',None), s.field) for p, s in m.mappings.items()]
        print("   root", type(m.match_root.astNode).__name__, "pairs", pairs)
        print("   sym", {k: [x.id for x in v] for k, v in m.symbol_table.items()}, "exp", {k: ast.unparse(v.astNode) for k, v in m.exp_table.items()}, "func", {k:[x.id for x in v] for k,v in m.func_table.items()}, "conf", m.conflict_keys)
show("_x_ = _x_ + 1", "a = b + 1\nc = c + 1")
show("x = 1\nprint(x)", "x = 1\ny = print(x)")
show("print(___)", "y = print(x)")
show("for _i_ in ___:\n    pass", "for k in range(3):\n    x = 1")
show("for _i_ in ___:\n    _t_ = _t_ + _i_", "for k in range(3):\n    s = s + k\nfor k in range(3):\n    s = s + j")
show("1", "x = True\ny = 1.0\nz = 1")
show("'a'", "x = 'a'\n")
show("__e__ + 1", "x = (a*b) + 1")
show("x = 1\ny = 2", "y = 2\nx = 1")
show("x = 1\ny = 2", "x = 1\nz = 3\ny = 2")
show("if ___:\n    x = 1", "if a:\n    y = 2\nelse:\n    x = 1")
show("def _f_(_a_):\n    return _a_", "def g(q):\n    return q\ndef h(q):\n    return r")
show("_f_(1)", "foo(1)\nobj.bar(1)")
show("___.append(___)", "a.append(1)\nappend(2)")
show("x + y", "y + x\nx - y")
show("zzz", "x = 1")
show("_a_ < _b_", "1 < x\nx < y < z")
show("[1, 2]", "[1, 3, 2]\n[2, 1]")
