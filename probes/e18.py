import itertools, time, sys, io, contextlib
from pedal.core.commands import *
from pedal.tifa import tifa_analysis
# statements over vars x,y ; nd() consumes an outcome
BASE = ["x = 1", "y = 1", "print(x)", "print(y)", "y = x", "x = x + 1"]
def blocks(depth):
    ss = list(BASE)
    if depth > 0:
        inner = [[s] for s in BASE] + [[a, b] for a in BASE[:4] for b in BASE[:4]]
        for body in inner:
            ss.append(("if", body)); ss.append(("while", body)); ss.append(("for", body)); ss.append(("def", body)); 
        for a in inner[:6]:
            for b in inner[:6]:
                ss.append(("ifelse", a, b))
    return ss
def render(prog):
    lines = []
    for s in prog:
        if isinstance(s, str): lines.append(s)
        elif s[0] == 'if': lines.append("if nd():"); lines += ["    " + l for l in s[1]]
        elif s[0] == 'ifelse': lines.append("if nd():"); lines += ["    " + l for l in s[1]]; lines.append("else:"); lines += ["    " + l for l in s[2]]
        elif s[0] == 'while': lines.append("while nd():"); lines += ["    " + l for l in s[1]]
        elif s[0] == 'for': lines.append("for i in seq():"); lines += ["    " + l for l in s[1]]
        elif s[0] == 'def': lines.append("def f():"); lines += ["    " + l for l in s[1]]; lines.append("f()")
    return "\n".join(lines) + "\n"
def executions(code):
    """run under all outcome vectors (DFS on demand); yield (line, name) of NameErrors"""
    comp = compile(code, 'answer.py', 'exec')
    errs = set()
    stack = [[]]
    while stack:
        vec = stack.pop()
        pos = [0]; used = []
        def nd():
            if pos[0] < len(vec): v = vec[pos[0]]
            else: v = 0
            used.append(v); pos[0] += 1
            if len(used) > 6: return False
            return bool(v)
        def seq():
            if pos[0] < len(vec): v = vec[pos[0]]
            else: v = 0
            used.append(v); pos[0] += 1
            return [0] * v
        env = {'nd': nd, 'seq': seq, '__name__': '__main__'}
        try:
            with contextlib.redirect_stdout(io.StringIO()): exec(comp, env)
        except (NameError,) as e:
            tb = e.__traceback__
            while tb.tb_next: tb = tb.tb_next
            import re as _re
            nm = e.name or (_re.search(r"'(\w+)'", str(e)) or [None, None])[1]
            errs.add((tb.tb_lineno, nm))
        except Exception as e:
            pass
        # extend: for each position beyond len(vec) consumed with default 0, try alternatives
        for i in range(len(vec), min(len(used), 6)):
            for alt in (1, 2):
                stack.append(used[:i] + [alt])
    return errs
ss = blocks(1)
progs = [(a,) for a in ss] + [(a, b) for a in ss for b in ss]
print("programs", len(progs))
n = bad = 0; kinds = {}; shown = 0; t0 = time.time()
for prog in progs:
    code = render(prog)
    errs = executions(code)
    clear_report(); contextualize_report(code)
    t = tifa_analysis()
    if not t.success: print("TIFA FAIL", code, t.error); continue
    got = set()
    for label in ('initialization_problem', 'possible_initialization_problem', 'read_out_of_scope'):
        for i in t.issues.get(label, []): got.add((i.location.line, i.fields['name']))
    n += 1
    missed = errs - got
    if missed:
        bad += 1
        k = tuple(sorted({type(s).__name__ if isinstance(s, str) else s[0] for s in prog}))
        kinds[k] = kinds.get(k, 0) + 1
        if shown < 8: shown += 1; print("C09 MISSED", missed, "\n" + code)
print("checked", n, "bad", bad, "time", round(time.time() - t0, 1))
for k, v in sorted(kinds.items(), key=lambda kv: -kv[1])[:20]: print(k, v)
