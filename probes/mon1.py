import sys, threading
mon = sys.monitoring
TOOL = 3
mon.use_tool_id(TOOL, "verif")
events=[]
inject = {'n': 0}
def f():
    x = 1
    try:
        y = 2
        z = 3
    except SystemExit as e:
        events.append(('caught', repr(e)))
        w = 4
    return 5
def line_cb(code, line):
    events.append((threading.current_thread().name, code.co_name, line))
    inject['n'] += 1
    if inject['n'] == 3:
        raise SystemExit("injected")
mon.register_callback(TOOL, mon.events.LINE, line_cb)
mon.set_local_events(TOOL, f.__code__, mon.events.LINE)
r = f()
print(r)
for e in events: print(e)
# second call: are line events still firing (not disabled)?
events.clear(); inject['n']=-100
f()
print(len(events))
