from pedal import *
from pedal.sandbox.feedbacks import runtime_error, zero_division_error
print(zero_division_error.title, runtime_error.title, runtime_error.__dict__.get('_override_backups'), zero_division_error.__dict__.get('_override_backups'))
runtime_error.override(title='XX', muted=True)
zero_division_error.override(title='ZZ')
print(zero_division_error.title, runtime_error.title)
clear_report()
print("after clear:", zero_division_error.title, runtime_error.title, zero_division_error.__dict__.get('title'))
