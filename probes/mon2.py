# feasibility: fault injection at PY_START inside the dynamic extent of a function, via sys.monitoring
import sys
from pedal.core.commands import *
from pedal.core.report import MAIN_REPORT
from pedal.sandbox.commands import run, get_sandbox
import pedal.sandbox.sandbox as sbmod
mon = sys.monitoring; TOOL=4
mon.use_tool_id(TOOL, 'verif')
class Injected(Exception): pass
state = {'armed': False, 'count': 0, 'target': None, 'sites': []}
def py_start(code, off):
    if 'pedal' not in code.co_filename: return mon.DISABLE
    if code.co_name == '_capture_exception': state['armed'] = True
    if state['armed']:
        state['count'] += 1
        state['sites'].append(code.co_name)
        if state['count'] == state['target']:
            state['armed'] = False
            raise Injected(f"fault at {code.co_name}")
mon.register_callback(TOOL, mon.events.PY_START, py_start)
mon.set_events(TOOL, mon.events.PY_START)
REAL = sys.stdout
k = 1; results = []
while True:
    clear_report(); contextualize_report("print('x')\nraise ValueError('v')\n")
    sb = get_sandbox()
    state.update(armed=False, count=0, target=k, sites=[])
    mon.restart_events()
    try:
        run(); r = 'returned'
    except Injected as e: r = 'raised:' + str(e)
    state['armed'] = False
    ok = (sys.stdout is REAL, len(sb._current_patches), len(sb._current_stdout))
    sys.stdout = REAL
    results.append((k, r, ok))
    if r == 'returned': break
    k += 1
print(len(results), results[:5], results[-2:])
