"""Prototype 2: baton scheduler over real pedal timeout path using sys.monitoring LINE events."""
import sys, threading, time, os
import pedal.sandbox.sandbox as sbmod
import pedal.sandbox.timeout as tomod
from pedal.core.commands import contextualize_report
from pedal.core.report import MAIN_REPORT
from pedal.sandbox.commands import get_sandbox

mon = sys.monitoring
TOOL = 4
WATCH = {sbmod.__file__, tomod.__file__}
K_JOIN = 45     # max student-thread steps while the grader waits in join()

class Sched:
    def __init__(self, choices):
        self.choices = list(choices)
        self.trace = []                # (enabled, chosen, where, free)
        self.sems = {'G': threading.Semaphore(0), 'T': threading.Semaphore(0)}
        self.alive = {'G': True, 'T': True}
        self.started = {'T': False}
        self.pending = {}
        self.at_join = False
        self.join_steps = 0
        self.log = []
        self.seen = set()
    def choose(self, me, where):
        """me holds the baton and is about to take a step. Decide who really goes."""
        others = [n for n in ('G', 'T') if n != me and self.alive[n] and (n != 'T' or self.started['T'])]
        if me == 'T' and self.at_join:
            # grader is blocked in join: T continues (choice 0) or timer fires (choice 1); free switch
            if self.join_steps >= K_JOIN:
                en, free = ['G'], True
            else:
                en, free = ['T', 'G'], True
            self.join_steps += 1
        elif me == 'T' and where[0] == 'answer.py' and where in self.seen and others:
            # spinning student loop: forced fair yield to the grader (not a preemption)
            self.seen = set()
            en, free = ['G'], True
        else:
            if me == 'T': self.seen.add(where)
            en, free = [me] + others, False
        if len(en) > 1:
            i = len(self.trace)
            c = self.choices[i] if i < len(self.choices) else 0
            if c >= len(en): raise RuntimeError("replay divergence")
            self.trace.append((tuple(en), c, where, free))
            nxt = en[c]
        else:
            nxt = en[0]
        if nxt != me:
            if nxt == 'T': self.seen = set()
            self.sems[nxt].release()
            self.sems[me].acquire()
    def point(self, me, where):
        self.choose(me, where)
        exc = self.pending.pop(me, None)
        if exc is not None:
            self.log.append(('deliver', me, where))
            raise exc
    def finish(self, me):
        self.alive[me] = False
        other = 'G' if me == 'T' else 'T'
        self.sems[other].release()

S = None
names = {}

def line_cb(code, line):
    if code.co_filename not in WATCH and code.co_filename != 'answer.py':
        return mon.DISABLE
    me = names.get(threading.get_ident())
    if me is None or S is None:
        return
    S.point(me, (os.path.basename(code.co_filename), line))

orig_run = tomod.InterruptableThread.run
orig_start = tomod.InterruptableThread.start
def run_wrap(self):
    names[threading.get_ident()] = 'T'
    sched = S
    sched.sems['T'].acquire()
    try:
        orig_run(self)
    finally:
        sched.log.append(('T-finished',))
        sched.finish('T')
def start_wrap(self):
    orig_start(self)
    S.started['T'] = True
def join_wrap(self, timeout=None):
    S.at_join = True
    # timer may fire right away (choice 0) or T runs first (choice 1)
    if S.alive['T']:
        i = len(S.trace)
        c = S.choices[i] if i < len(S.choices) else 0
        S.trace.append((('G', 'T'), c, 'join', True))
        if c == 1:
            S.sems['T'].release(); S.sems['G'].acquire()
    S.at_join = False
    S.log.append(('join-returns', 'T alive' if S.alive['T'] else 'T done'))
def async_raise(thread_id, exception):
    S.pending['T'] = exception() if isinstance(exception, type) else exception
    S.log.append(('terminate-set',))
def is_alive_wrap(self):
    return S.alive['T']
tomod.InterruptableThread.run = run_wrap
tomod.InterruptableThread.start = start_wrap
tomod.InterruptableThread.join = join_wrap
tomod.InterruptableThread._async_raise = staticmethod(async_raise)
tomod.InterruptableThread.is_alive = is_alive_wrap
# raise_exception looks the thread up in threading._active; bypass to our async_raise
def raise_exception(self, exception):
    assert self.is_alive(), "thread must be started"
    async_raise(None, exception)
tomod.InterruptableThread.raise_exception = raise_exception

REAL_STDOUT = sys.stdout
def one(choices, prog):
    global S
    MAIN_REPORT.clear()
    contextualize_report(prog)
    sb = get_sandbox()
    sb.allowed_time = 5
    S = sched = Sched(choices)
    names.clear(); names[threading.get_ident()] = 'G'
    mon.restart_events()
    err = None; exc1 = None
    try:
        sb.run(threaded=True)
        exc1 = sb.exception
        sb.run("print('second')", threaded=False)
    except BaseException as e:
        err = e
    # drain T
    drained = 0
    while sched.alive['T'] and sched.started['T'] and drained < 200:
        drained += 1
        sched.sems['T'].release(); sched.sems['G'].acquire()
    S = None
    obs = dict(err=repr(err), exc1=type(getattr(exc1,'_actual_value',exc1)).__name__,
               exc_end=type(getattr(sb.exception,'_actual_value',sb.exception)).__name__,
               fbs=[f.label+':'+str(f.title) for f in MAIN_REPORT.feedback if f.category=='runtime'],
               out=sb.raw_output, stacks=(len(sb._current_patches), len(sb._current_stdout)),
               stdout_ok=sys.stdout is REAL_STDOUT, drained=drained>=200)
    sys.stdout = REAL_STDOUT
    return obs, sched.trace, sched.log

mon.use_tool_id(TOOL, "verif")
mon.register_callback(TOOL, mon.events.LINE, line_cb)
mon.set_events(TOOL, mon.events.LINE)

PROG = "print('hi')\nwhile True:\n    pass\n"
t0 = time.time()
results = {}
count = 0
def explore(prefix, bound):
    global count
    obs, tr, log = one(prefix, PROG)
    count += 1
    key = repr(obs)
    if key not in results: results[key] = (prefix, len(tr), log)
    for i in range(len(prefix), len(tr)):
        en, c, where, free = tr[i]
        pre = sum(1 for (e, ch, w, f) in tr[:i] if ch != 0 and not f)
        for alt in range(1, len(en)):
            cost = pre + (0 if free else 1)
            if cost > bound: continue
            explore([t[1] for t in tr[:i]] + [alt], bound)
import faulthandler; faulthandler.dump_traceback_later(900, exit=True)
explore([], int(sys.argv[1]) if len(sys.argv)>1 else 1)
print("executions", count, "distinct", len(results), "time", round(time.time()-t0,2))
for k,(p,n,log) in results.items(): print(n, p[:60], k[:400]); print("   ", log[:8])
