import itertools, time
from fractions import Fraction
from pedal.core.commands import *
from pedal.core.feedback import Feedback
from pedal.core.report import MAIN_REPORT, Report
from pedal.resolvers import simple
RANK = ["highest", "syntax", "mistakes", "instructor", "algorithmic", "runtime", "student", "specification", "positive", "instructions", "uncategorized", "lowest"]
ALIASES = {'parser': 'syntax', 'verifier': 'syntax', 'analyzer': 'algorithmic', 'instructor': 'instructor'}
def rank(fb):
    cat = (fb.category or 'uncategorized').lower()
    pr = fb.priority.lower() if fb.priority is not None else 'medium'
    pr = ALIASES.get(pr, pr)
    base = RANK.index(cat) if cat in RANK else len(RANK)
    off = 1
    if pr in RANK: base = RANK.index(pr)
    elif pr == 'high': off = 0
    elif pr == 'low': off = 2
    elif pr == 'medium': off = 1
    else: return None   # unspecified
    return (base, off)
def suppressed(fb, sups):
    for (cat, label, fields) in sups:
        if cat is not None:
            c = ALIASES.get(cat.lower(), cat.lower())
            if (fb.category or '').lower() != c: continue
            if label is not True and fb.label.lower() != label.lower(): continue
        else:
            if fb.label != label: continue
        if all(fb.fields.get(k) == v for k, v in (fields or {}).items()): return True
    return False
def reference(fbs, sups):
    elig = [(i, f) for i, f in enumerate(fbs) if bool(f) and not f.muted and not suppressed(f, sups) and f.kind != 'Compliment']
    correct = all(bool(f.correct) for _, f in elig)
    # score
    total = Fraction(0)
    for f in fbs:
        if suppressed(f, sups) or f.unscored or f.score is None: continue
        s = str(f.score); neg = s.startswith('-'); s2 = s.lstrip('+-'); pct = s2.endswith('%'); v = Fraction(s2.rstrip('%')); v = v/100 if pct else v
        if neg: v = -v
        if (f.valence != -1 and bool(f)) or (f.valence == -1 and not bool(f)): total += v
    shown = [(i, f) for i, f in elig if f.message is not None]
    if not shown:
        return dict(label='set_correct_no_errors', title='Complete', message='Great work!', correct=True, score=1)
    ranks = [(rank(f), i, f) for i, f in shown]
    if any(r is None for r, _, _ in ranks): return None
    r, i, f = min(ranks, key=lambda t: (t[0], t[1]))
    return dict(label=f.label, title=f.title or f.label, message=f.message, correct=correct, score=float(round(total, 2)))
CATS = ['syntax', 'instructor', 'runtime', 'specification', 'complete', 'custom', 'Algorithmic']
PRIOS = [None, 'high', 'low', 'student', 'highest', 'parser']
DESCS = []
for c in CATS:
    for p in PRIOS:
        DESCS.append(dict(category=c, priority=p))
EXTRA = [dict(category='instructor', muted=True, score='+10%'), dict(category='syntax', kind='Compliment', correct=True), dict(category='runtime', activate=False, valence=-1, score='20%'),
         dict(category='instructor', activate=False, else_message='yay', valence=-1, score=0.5), dict(category='mistakes', fields={'x': 1}, label='L'), dict(category='mistakes', fields={'x': 2}, label='L', valence=1, score='-10%'),
         dict(category='positive', correct=True, valence=1, score=1), dict(category='instructions', kind='Instructional', valence=0), dict(category='student', unscored=True, score='50%', valence=1)]
SUPS = [[], [('mistakes', True, None)], [('mistakes', 'L', {'x': 1})], [(None, 'L', None)], [('parser', True, None)], [('Instructor', True, None)], [('runtime', 'nothere', None)]]
ALPHA = DESCS[:0] + [DESCS[i] for i in (0, 1, 2, 7, 9, 12, 14, 18, 20, 24, 27, 30, 33, 36, 40)] + EXTRA
print("alphabet", len(ALPHA))
n = bad = 0; t0 = time.time(); shown = 0; skipped = 0
for L in (1, 2, 3):
    for seq in itertools.product(range(len(ALPHA)), repeat=L):
        for sups in SUPS:
            MAIN_REPORT.clear()
            fbs = []
            for k, di in enumerate(seq):
                d = dict(ALPHA[di]); d.setdefault('label', f'f{k}'); d.setdefault('message', f'msg{k}'); d.setdefault('valence', -1)
                fbs.append(Feedback(**d))
            for (c, l, f) in sups: suppress(c, l, f)
            n += 1
            try:
                r = simple.resolve()
                got = dict(label=r.label, title=r.title, message=r.message, correct=r.correct, score=r.score)
            except Exception as e:
                got = 'RAISED ' + repr(e)[:50]
            exp = reference(fbs, sups)
            if exp is None: skipped += 1; continue
            if got != exp:
                bad += 1
                if shown < 10: shown += 1; print("MISMATCH", [ALPHA[i] for i in seq], sups, "\n   exp", exp, "\n   got", got)
print("resolves", n, "bad", bad, "skipped", skipped, "time", round(time.time() - t0, 1), "per", round((time.time()-t0)/n*1e6), "us")
