from pedal.core.commands import *
from pedal.core.report import MAIN_REPORT
from pedal.core.feedback import Feedback
from pedal.source import verify, set_source, next_section
from pedal.source.sections import separate_into_sections, stop_sections
from pedal.tifa import tifa_analysis
from pedal.sandbox.commands import run, get_sandbox
from pedal.resolvers import simple
# C17
src = "a = 1\n##### Part 1\nb = 2\nprint(b)\n##### Part 2\nc = 3\nprint(zzz)\nd = (\n##### Part 3\nq = 1/0\n"
for independent in (True, False):
    clear_report(); contextualize_report(src)
    separate_into_sections(independent=independent)
    secs = MAIN_REPORT['source']['sections']
    print("C17 sections concat ok", ''.join(secs) == src, len(secs))
    for k in range(1, 4):
        next_section()
        code = MAIN_REPORT.submission.main_code
        n0 = len(MAIN_REPORT.feedback)
        ok = verify()
        t = tifa_analysis()
        try:
            run()
        except Exception as e: print("  run raised", e)
        new = MAIN_REPORT.feedback[n0:]
        print("  sec", k, independent, repr(code)[:50], "verify", ok, [(f.label, f.location.line if f.location else None) for f in new], {k:[(i.fields.get('name'), i.location.line) for i in v] for k,v in t.issues.items()} if t.success else t.error)
        for f in new:
            if f.category == 'runtime': print("     traceback lines:", [l for l in f.message.split('\n') if l.startswith('Line')])
    stop_sections()
    print("  restored", MAIN_REPORT.submission.main_code == src)
# C20 override
class A(Feedback):
    title = "A-title"; category='instructor'; message="m"
class B(A):
    pass
clear_report()
A.override(title="A-over"); B.override(title="B-over")
print("C20 during", A.title, B.title)
clear_report()
print("C20 after clear", A.title, B.title, "(expected A-title A-title)")
B.override(title="B2"); clear_report(); print("C20 child only", A.title, B.title)
# exactly once / error path
class C(Feedback):
    category='instructor'
    def condition(self): raise ValueError("boom")
clear_report()
try:
    C(); print("no raise")
except ValueError as e: print("C20 cond raise reaches caller", len(MAIN_REPORT.feedback), len(MAIN_REPORT.ignored_feedback), MAIN_REPORT.ignored_feedback[0]._status)
class D(Feedback):
    category='instructor'; message_template="x {missing}"
clear_report()
try:
    D(); print("no raise")
except KeyError as e: print("C20 msg raise reaches caller", len(MAIN_REPORT.feedback), len(MAIN_REPORT.ignored_feedback), MAIN_REPORT.ignored_feedback[0]._status, bool(MAIN_REPORT.ignored_feedback[0]))
