import itertools, re, time, inspect
from pedal.core.commands import *
from pedal.core.report import MAIN_REPORT
import pedal.assertions.runtime as RT
from pedal.assertions.feedbacks import RuntimeAssertionFeedback
from pedal.sandbox.commands import run, call, get_sandbox
contextualize_report("def ident(a):\n    return a\n"); run()
class Opaque: pass
VALS = [0, 1, -1, 2, True, False, 1.0, 1.0005, 1.002, 0.9995, 'a', 'A', 'abc', 'a!', 'Hello, World', 'hello world', '', [], [1], [1, 2], [2, 1], (1, 2), (), {'a': 1}, {}, {1, 2}, None, [1.0005], [[1], [2]], (1, 'a'), ValueError('x')]
def holds(fn, *a):
    try: return bool(fn(*a))
    except Exception: return False
REL = {
 'assert_less': lambda a, b: a < b, 'assert_less_equal': lambda a, b: a <= b, 'assert_greater': lambda a, b: a > b, 'assert_greater_equal': lambda a, b: a >= b,
 'assert_in': lambda a, b: a in b, 'assert_not_in': lambda a, b: a not in b, 'assert_is': lambda a, b: a is b, 'assert_is_not': lambda a, b: a is not b,
 'assert_length_equal': lambda a, b: len(a) == b, 'assert_length_not_equal': lambda a, b: len(a) != b, 'assert_length_less': lambda a, b: len(a) < b, 'assert_length_less_equal': lambda a, b: len(a) <= b,
 'assert_length_greater': lambda a, b: len(a) > b, 'assert_length_greater_equal': lambda a, b: len(a) >= b,
 'assert_contains_subset': lambda a, b: all(x in b for x in a), 'assert_not_contains_subset': lambda a, b: not all(x in b for x in a),
}
UN = {'assert_is_none': lambda a: a is None, 'assert_is_not_none': lambda a: a is not None, 'assert_true': lambda a: bool(a), 'assert_false': lambda a: not bool(a)}
proxies = {}
def P(i):
    if i not in proxies: proxies[i] = call('ident', VALS[i])
    return proxies[i]
def iserr(v): return isinstance(v, Exception)
n = bad = 0; kinds = {}; t0 = time.time()
def note(k, d):
    global bad
    bad += 1
    if k not in kinds: print(k, d)
    kinds[k] = kinds.get(k, 0) + 1
for name, rel in REL.items():
    cls = getattr(RT, name)
    for i, j in itertools.product(range(len(VALS)), repeat=2):
        a, b = VALS[i], VALS[j]
        exp = False if (iserr(a) or iserr(b)) else holds(rel, a, b)
        for wa, wb in itertools.product((0, 1), repeat=2):
            if (wa and iserr(a)) or (wb and iserr(b)): continue
            n += 1
            try:
                fb = cls(P(i) if wa else a, P(j) if wb else b)
                silent = (not bool(fb)) and fb not in MAIN_REPORT.feedback
            except Exception as e:
                note(f'{name} RAISED {type(e).__name__}', (a, b, wa, wb)); continue
            if silent != exp:
                why = 'falsepass' if silent else 'falsefail'
                status = fb._status
                note(f'{name} {why} status={status} wrap={wa}{wb}', (repr(a)[:20], repr(b)[:20]))
for name, rel in UN.items():
    cls = getattr(RT, name)
    for i in range(len(VALS)):
        a = VALS[i]; exp = False if iserr(a) else holds(rel, a)
        for wa in (0, 1):
            if wa and iserr(a): continue
            n += 1
            fb = cls(P(i) if wa else a)
            silent = (not bool(fb)) and fb not in MAIN_REPORT.feedback
            if silent != exp: note(f'{name} {"falsepass" if silent else "falsefail"} status={fb._status} wrap={wa}', repr(a)[:20])
# equality: order independence + complement
for i, j in itertools.product(range(len(VALS)), repeat=2):
    a, b = VALS[i], VALS[j]
    for wa, wb in itertools.product((0, 1), repeat=2):
        if (wa and iserr(a)) or (wb and iserr(b)): continue
        n += 1
        e1 = not bool(RT.assert_equal(P(i) if wa else a, P(j) if wb else b)); e2 = not bool(RT.assert_equal(P(j) if wb else b, P(i) if wa else a))
        ne = not bool(RT.assert_not_equal(P(i) if wa else a, P(j) if wb else b))
        if e1 != e2: note(f'assert_equal order-dependent wrap={wa}{wb}', (repr(a)[:20], repr(b)[:20], e1, e2))
        if not (iserr(a) or iserr(b)) and e1 == ne: note(f'equal/not_equal both {"pass" if e1 else "fail"}', (repr(a)[:20], repr(b)[:20]))
        if (iserr(a) or iserr(b)) and (e1 or ne): note(f'error operand passes eq={e1} ne={ne}', (repr(a)[:20], repr(b)[:20]))
        if not iserr(a) and not iserr(b) and type(a) is type(b) and holds(lambda x, y: x == y, a, b) and not e1: note('python-equal same-type fails', (repr(a)[:20], repr(b)[:20]))
print("checks", n, "bad", bad, "time", round(time.time() - t0, 1))
for k, v in sorted(kinds.items(), key=lambda kv: -kv[1])[:60]: print(v, k)
