import argparse, sys
from pedal.command_line.modes import Bundle
from pedal.core.submission import Submission
cfg = argparse.Namespace(threaded=False, resolver='resolve')
def grade(script, code, env='standard'):
    sub = Submission(main_file='answer.py', main_code=code, instructor_file='ics.py')
    b = Bundle(cfg, script, sub); b.environment = env
    b.run_ics_bundle()
    r = b.result
    res = r.resolution
    return (repr(r.error)[:80], r.output[:200], (res.label, res.title, res.message[:60], res.correct, res.score) if res is not None and hasattr(res,'label') else res)
S1 = "from pedal import *\nassert_equal(call('add', 1, 2), 3)\n"
S2 = "from pedal import *\nfrom pedal.sandbox.feedbacks import runtime_error\nruntime_error.override(muted=True, title='XX')\nsuppress('algorithmic')\nfrom pedal.core.formatting import HtmlFormatter\nset_formatter(HtmlFormatter)\n"
S3 = "from pedal import *\nraise ValueError('ics crashed')\n"
S4 = "from pedal import *\nfrom pedal.core.commands import set_correct\nset_correct.override(title='Custom')\nmock_function('len', lambda x: 42)\nfrom pedal.source.sections import separate_into_sections\nseparate_into_sections()\nnext_section()\nset_correct()"
P1 = "def add(a, b):\n    return a + b\nprint('hello')\n"
P2 = "def add(a, b):\n    return a - b\nunused = 1\nprint(1/0)\n"
fresh = {}
for s in 'S1 S2 S3 S4'.split():
    for p in 'P1 P2'.split():
        pass
import itertools
seq = [('S1','P1'), ('S1','P2'), ('S2','P2'), ('S1','P2'), ('S3','P1'), ('S1','P2'), ('S4','P1'), ('S1','P2'), ('S1', 'P1')]
for s, p in seq:
    print(s, p, grade(globals()[s], globals()[p]))
