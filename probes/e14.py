import ast, copy, itertools, time
from pedal.core.commands import *
from pedal.cait.cait_api import find_matches
STM = ["x = 1", "y = x + 2", "print(x)", "print(x, y)", "total = total + n", "items.append(x)", "for i in items:\n    total = total + i", "if x > 2:\n    y = 1\nelse:\n    y = 2",
       "while x < 10:\n    x = x + 1", "def f(a, b):\n    return a * b", "z = f(x, 3)", "z = f(x, key=3)", "w = items[0]", "q = [x, y, 1]", "r = {'a': x}", "s = x < y < 3", "t = not (x and y)",
       "class C:\n    def m(self):\n        return self.v", "u = obj.attr.sub", "v = -x ** 2", "try:\n    x = int(s)\nexcept ValueError:\n    x = 0", "import math", "k = math.sqrt(x)", "name = input('n')", "for i in range(3):\n    for j in range(i):\n        print(i, j)",
       "if a:\n    pass\nelif b:\n    x = 1", "with open('f') as fh:\n    data = fh.read()", "return_val = lambda q: q + 1", "x += 1", "del x", "assert x == 1", "g = [i * 2 for i in items if i]", "print('a' + str(x))", "x, y = y, x"]
class Gen(ast.NodeTransformer):
    pass
def exprs(tree):
    return [n for n in ast.walk(tree) if isinstance(n, ast.expr) and not isinstance(getattr(n, 'ctx', None), (ast.Store, ast.Del))]
def replace_node(tree, target_idx, new_name):
    tree = copy.deepcopy(tree)
    nodes = exprs(tree)
    tgt = nodes[target_idx]
    class R(ast.NodeTransformer):
        def visit(self, node):
            if node is tgt:
                return ast.copy_location(ast.Name(id=new_name, ctx=ast.Load()), node)
            return super().visit(node)
    return R().visit(tree), tgt
n = bad = 0; kinds = {}; shown = 0; t0 = time.time()
TESTS = []
def test(*a):
    TESTS.append(a)
def realtest(pattern, code, what, expect_bind=None):
    global n, bad, shown
    n += 1
    try:
        clear_report(); contextualize_report(code)
        ms = find_matches(pattern)
        ok = len(ms) >= 1
        if ok and expect_bind:
            k, v = expect_bind
            ok = False
            for m in ms:
                try:
                    if k.startswith('__'):
                        if ast.dump(m.exp_table[k].astNode) == v: ok = True
                    else:
                        if m[k].id == v: ok = True
                except Exception: pass
            why = 'binding'
        else: why = 'nomatch'
    except Exception as e:
        ok = False; why = 'EXC ' + repr(e)[:60]
    if not ok:
        bad += 1; kinds[(what, why.split()[0])] = kinds.get((what, why.split()[0]), 0) + 1
        if shown < 25: shown += 1; print("C11 MISS", what, why, "| pattern:", repr(pattern)[:90], "| code:", repr(code)[:90])
progs = [(s,) for s in STM] + list(itertools.product(STM[:12], repeat=2))
for prog in progs:
    code = "\n".join(prog) + "\n"
    tree = ast.parse(code)
    test(code, code, 'whole')
    for st in tree.body:
        test(ast.unparse(st), code, 'stmt')
    # wildcard / expr replacement of each expression position
    for idx in range(len(exprs(tree))):
        for nm in ('___', '__e__'):
            t2, tgt = replace_node(tree, idx, nm)
            try: pat = ast.unparse(t2); ast.parse(pat)
            except Exception: continue
            test(pat, code, 'repl'+nm, ('__e__', ast.dump(tgt)) if nm == '__e__' else None)
    # rename identifiers
    ids = sorted({nd.id for nd in ast.walk(tree) if isinstance(nd, ast.Name)})
    for ident in ids:
        t2 = copy.deepcopy(tree)
        for nd in ast.walk(t2):
            if isinstance(nd, ast.Name) and nd.id == ident: nd.id = '_v_'
        test(ast.unparse(t2), code, 'rename', ('_v_', ident))
    # drop sibling
    if len(tree.body) > 1:
        for i in range(len(tree.body)):
            t2 = copy.deepcopy(tree); del t2.body[i]
            test(ast.unparse(t2), code, 'drop')
for a in TESTS: realtest(*a)
print("tests", n, "bad", bad, "time", round(time.time()-t0,1))
for k, v in sorted(kinds.items()): print(k, v)
