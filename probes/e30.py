import ast, itertools, time, warnings
warnings.filterwarnings('ignore')
from pedal.core.commands import *
from pedal.core.report import MAIN_REPORT
from pedal.tifa import tifa_analysis
SNIP = ["x = 1", "x: int = 1", "a, *b = [1, 2, 3]", "x = [i for i in range(3)]", "x = {i: i for i in range(3)}", "x = {i for i in range(3)}", "x = sum(i for i in range(3))", "f = lambda a: a", "def fn(a, b=1, *c, d=2, **e):\n    return a",
 "class A:\n    x = 1\n    def m(self):\n        return self.x", "try:\n    x = 1\nexcept ValueError as e:\n    print(e)\nelse:\n    pass\nfinally:\n    pass", "with open('f') as fh:\n    pass", "while True:\n    break\nelse:\n    pass", "for i in range(3):\n    continue",
 "import math", "from math import sqrt as s", "x = 1 if True else 2", "x = f'{1}a'", "x = [1, 2][0:1]", "x = not True", "x = -1", "x = 1 < 2 < 3", "del x", "global g", "assert True, 'm'", "raise ValueError('x')", "x = (y := 3)",
 "match 1:\n    case 1:\n        pass\n    case [a, b]:\n        pass\n    case {'k': v}:\n        pass\n    case A(x=1) | None:\n        pass\n    case _:\n        pass", "x = 1; x += 1", "x = [1]; x[0] += 1", "x = ...", "x = b'ab'", "x = 1j", "x = {**{'a': 1}}", "print(*[1, 2])", "x = [*[1], 2]",
 "@staticmethod\ndef sf(): pass", "type X = int", "x = 'a' 'b'", "x = [1, 2, 3][::2]", "x = 1 @ 2", "import os.path", "x = await_ = 1", "async def af():\n    await g()\n    async for i in g():\n        pass\n    async with g() as h:\n        pass", "def gf():\n    yield 1\n    x = yield\n    yield from [1]",
 "def nl():\n    n = 1\n    def inner():\n        nonlocal n\n        n = 2\n    inner()", "try:\n    pass\nexcept* ValueError:\n    pass", "def gen[T](a: T) -> T:\n    return a", "class G[T]:\n    pass", "x = a.b.c = 1", "x = a[1][2]", "x = a(1)(2)", "x = (1, *[2])", "x = {1, *[2]}", "return 5", "x = `1`" ]
SNIP = [s for s in SNIP if (lambda c: not isinstance(c, SyntaxError))((lambda s: (compile(s, 'x', 'exec') if True else None))(s) if not s.startswith('x = `') and s != 'return 5' else SyntaxError())] + ["return 5"]
WRAP = ["{}", "def w():\n{i}\nw()", "if True:\n{i}", "for q in range(2):\n{i}", "class W:\n{i}", "while False:\n{i}", "try:\n{i}\nexcept Exception:\n    pass"]
def ind(s): return "\n".join("    " + l for l in s.split("\n"))
progs = []
for s in SNIP:
    for w in WRAP:
        progs.append(w.format(s) if w == "{}" else w.replace("{i}", ind(s)))
for a, b in itertools.product(SNIP, repeat=2): progs.append(a + "\n" + b)
n = bad = 0; kinds = {}; t0 = time.time()
for code in progs:
    try: ast.parse(code)
    except SyntaxError: continue
    n += 1
    clear_report(); contextualize_report(code)
    try:
        t = tifa_analysis()
    except BaseException as e:
        bad += 1; k = 'RAISED ' + type(e).__name__
        if k not in kinds: print(k, repr(code)[:100], repr(e)[:80])
        kinds[k] = kinds.get(k, 0) + 1; continue
    nf = len(MAIN_REPORT.feedback) + len(MAIN_REPORT.ignored_feedback)
    t2 = tifa_analysis()
    if len(MAIN_REPORT.feedback) + len(MAIN_REPORT.ignored_feedback) != nf: kinds['nonidempotent'] = kinds.get('nonidempotent', 0) + 1
    nlines = len(code.split("\n"))
    for lab, iss in t.issues.items():
        for i in iss:
            if i.location is not None and i.location.line is not None and not (1 <= i.location.line <= nlines):
                k = 'line out of range ' + lab
                if k not in kinds: print(k, repr(code)[:100], i.location.line)
                kinds[k] = kinds.get(k, 0) + 1; bad += 1
    if not t.success:
        k = 'internal fail: ' + repr(t.error)[:60]
        kinds[k] = kinds.get(k, 0) + 1
print("programs", n, "bad", bad, "time", round(time.time() - t0, 1))
for k, v in sorted(kinds.items(), key=lambda kv: -kv[1])[:40]: print(v, k)
