import argparse, sys, json, subprocess, itertools, time, os
SCRIPTS = {
 'assert': "from pedal import *\nassert_equal(call('add', 1, 2), 3)\n",
 'override': "from pedal import *\nfrom pedal.sandbox.feedbacks import runtime_error, zero_division_error\nruntime_error.override(title='XX', muted=True)\nzero_division_error.override(title='ZZ')\nassert_equal(call('add', 1, 2), 3)\n",
 'suppress': "from pedal import *\nsuppress('algorithmic')\nsuppress('runtime')\n",
 'formatter': "from pedal import *\nfrom pedal.core.formatting import HtmlFormatter\nset_formatter(HtmlFormatter)\nassert_equal(call('add', 1, 2), 3)\n",
 'mock': "from pedal import *\nmock_function('len', lambda x: 42)\nblock_module('math')\nrun()\nassert_equal(call('add', 1, 2), 3)\n",
 'sections': "from pedal import *\nfrom pedal.source.sections import separate_into_sections\nseparate_into_sections()\nnext_section()\nverify()\nexplain('in section')\n",
 'crash': "from pedal import *\nfrom pedal.core.commands import gently as g\ng.override(title='Crashed Title')\nsuppress('syntax')\nraise ValueError('ics crashed')\n",
 'group_crash': "from pedal import *\nfrom pedal.assertions.feedbacks import assert_group\ng = assert_group('grp')\ng.__enter__()\nassert_equal(1, 2)\nraise KeyError('inside group')\n",
 'tifa_mod': "from pedal import *\nfrom pedal.tifa.commands import tifa_provide_module_type\ntifa_provide_module_type('mymod', {})\ngently('plain')\n",
 'hide': "from pedal import *\nhide_correctness()\nset_correct()\n",
}
SUBS = {'good': "def add(a, b):\n    return a + b\nprint(add(1, 2))\n", 'wrong': "def add(a, b):\n    return a - b\nunused = 1\n", 'syntax': "def add(a, b):\n    return a +\n", 'runtime': "def add(a, b):\n    return a + b\nprint(add(1, 2))\nprint(1/0)\n", 'sectioned': "x = 1\n##### Part 1\ndef add(a, b):\n    return a + b\nprint(len([1]))\n"}
def grade(sname, pname, env='standard'):
    from pedal.command_line.modes import Bundle
    from pedal.core.submission import Submission
    cfg = argparse.Namespace(threaded=False, resolver='resolve')
    sub = Submission(main_file='answer.py', main_code=SUBS[pname], instructor_file='ics.py')
    b = Bundle(cfg, SCRIPTS[sname], sub); b.environment = env
    try:
        b.run_ics_bundle()
    except BaseException as e:
        return ['BUNDLE RAISED', repr(e)[:80]]
    r = b.result; res = r.resolution
    proj = [type(r.error).__name__ if r.error else None, r.output]
    if res is not None and hasattr(res, 'label'): proj += [res.label, res.title, res.message, res.correct, res.score]
    else: proj += [repr(res)]
    return proj
if len(sys.argv) > 1 and sys.argv[1] == 'fresh':
    print(json.dumps(grade(sys.argv[2], sys.argv[3]))); sys.exit(0)
keys = list(itertools.product(SCRIPTS, SUBS))
t0 = time.time()
procs = {k: subprocess.Popen([sys.executable, __file__, 'fresh', *k], stdout=subprocess.PIPE, stderr=subprocess.DEVNULL, text=True) for k in keys}
fresh = {k: json.loads(p.communicate()[0].strip().split("\n")[-1]) for k, p in procs.items()}
print("fresh refs", len(fresh), round(time.time() - t0, 1), "s")
n = bad = 0; kinds = {}
REAL = sys.stdout
for a in keys:
    for b in keys:
        for pos, k in enumerate((a, b)):
            got = json.loads(json.dumps(grade(*k))); n += 1
            if sys.stdout is not REAL: sys.stdout = REAL
            if got != fresh[k]:
                bad += 1; kk = (a if pos else None, k)
                key = (a[0] if pos else '-', k[0])
                if key not in kinds:
                    diff = [i for i, (x, y) in enumerate(zip(got, fresh[k])) if x != y]
                    print("DIFF after", a if pos else 'start', "grading", k, "fields", diff, "\n   got  ", [str(x)[:70] for x in got], "\n   fresh", [str(x)[:70] for x in fresh[k]])
                kinds[key] = kinds.get(key, 0) + 1
print("gradings", n, "bad", bad, round(time.time() - t0, 1), "s")
for k, v in sorted(kinds.items(), key=lambda kv: -kv[1])[:30]: print(v, k)
