import ast, itertools, re, time
from pedal.core.commands import *
from pedal.cait.cait_api import find_matches
def is_wild(n): return isinstance(n, ast.Name) and n.id == '___'
def is_expr_ph(n): return isinstance(n, ast.Name) and re.match(r'^__.*__$', n.id) and n.id != '___'
def is_var_ph(name): return isinstance(name, str) and re.match(r'^_[^_].*_$', name)
def children(n):
    out = []
    for f, v in ast.iter_fields(n):
        if isinstance(v, ast.AST): out.append(v)
        elif isinstance(v, list): out.extend(x for x in v if isinstance(x, ast.AST))
    return out
def prims(n):
    out = []
    for f, v in ast.iter_fields(n):
        if isinstance(v, ast.AST) or f in ('ctx', 'kind', 'type_comment', 'lineno'): continue
        if isinstance(v, list):
            out.append((f, tuple(x for x in v if not isinstance(x, ast.AST))))
        else: out.append((f, v))
    return out
def embeds(p, s, binds):
    """yield extended bindings under which pattern node p embeds at student node s"""
    if isinstance(p, ast.Expr) and isinstance(p.value, ast.Name) and (is_wild(p.value) or is_expr_ph(p.value)):
        # statement-level placeholder: matches any statement (bound to stmt or its expr)
        if is_wild(p.value): yield binds; return
        key = p.value.id
        tgt = ast.dump(s)
        alt = ast.dump(s.value) if isinstance(s, ast.Expr) else None
        if key in binds:
            if binds[key] in (tgt, alt): yield binds
        else:
            for t in {tgt, alt} - {None}: yield {**binds, key: t}
        return
    if is_wild(p): yield binds; return
    if is_expr_ph(p):
        key, tgt = p.id, ast.dump(s)
        if binds.get(key, tgt) == tgt: yield {**binds, key: tgt}
        return
    if isinstance(p, (ast.expr_context,)): yield binds; return
    if type(p) is not type(s): return
    # identifier-ish fields with var placeholders
    b = dict(binds)
    for (f, pv), (f2, sv) in zip(prims(p), prims(s)):
        if pv is None: continue
        if is_var_ph(pv):
            if not isinstance(sv, str): return
            if b.get(pv, sv) != sv: return
            b[pv] = sv
        elif pv != sv: return
    pc = [c for c in children(p) if not isinstance(c, ast.expr_context)]
    sc = [c for c in children(s) if not isinstance(c, ast.expr_context)]
    def rec(i, j, bb):
        if i == len(pc): yield bb; return
        for jj in range(j, len(sc)):
            for b2 in embeds(pc[i], sc[jj], bb):
                yield from rec(i + 1, jj + 1, b2)
    yield from rec(0, 0, b)
    if isinstance(p, ast.BinOp) and isinstance(p.op, (ast.Add, ast.Mult)) and len(pc) == 3:
        pc2 = [pc[2], pc[1], pc[0]]
        def rec2(i, j, bb):
            if i == len(pc2): yield bb; return
            for jj in range(j, len(sc)):
                for b2 in embeds(pc2[i], sc[jj], bb):
                    yield from rec2(i + 1, jj + 1, b2)
        # swapped: left<->right (op in the middle stays)
        for b1 in embeds(pc[0], sc[2], b):
            for b2 in embeds(pc[1], sc[1], b1):
                yield from embeds(pc[2], sc[0], b2)
def trim(n):
    while isinstance(n, (ast.Module, ast.Expr)) and len(children(n)) == 1: n = children(n)[0]
    return n
def witness(pattern, match):
    p = trim(ast.parse(pattern))
    s = match.match_root.astNode
    want = {k: v.id for k, v in match.symbol_table.items()}
    want.update({k: v[0].id for k, v in match.func_table.items()})
    for b in embeds(p, s, {}):
        ok = all(b.get(k) == v for k, v in want.items() if k in b) 
        okx = True
        for k, v in match.exp_table.items():
            d = ast.dump(v.astNode)
            if k in b and b[k] != d and not (isinstance(v.astNode, ast.Expr) and b[k] == ast.dump(v.astNode.value)): okx = False
        if ok and okx: return True
    return False
STM = ["x = 1", "y = x + 2", "print(x)", "total = total + n", "items.append(x)", "for i in items:\n    total = total + i", "if x > 2:\n    y = 1\nelse:\n    y = 2",
       "while x < 10:\n    x = x + 1", "def f(a, b):\n    return a * b", "z = f(x, 3)", "w = items[0]", "q = [x, y, 1]", "s = x < y", "y = 2 * x", "y = x - 2", "n = n + total", "print(y, x)"]
PATS = ["x = 1", "_a_ = _a_ + _b_", "_a_ = _b_ + _a_", "___ = ___ + 2", "print(___)", "print(_v_)", "__e__ + 2", "for _i_ in _l_:\n    _t_ = _t_ + _i_", "for _i_ in ___:\n    ___ = ___ + _i_", "if ___:\n    y = 1",
        "if __c__:\n    _v_ = 1\nelse:\n    _v_ = 2", "while _v_ < ___:\n    _v_ = _v_ + 1", "def _f_(_a_, _b_):\n    return _a_ * _b_", "def _f_(_a_, _b_):\n    return _b_ * _a_", "_f_(___, 3)", "___.append(_x_)", "_l_[0]", "[___, ___]", "_a_ < _b_", "2 * _x_", "_x_ * 2", "_x_ - 2", "2 - _x_",
        "x = 1\ny = x + 2", "_a_ = 1\n_b_ = _a_ + 2", "_a_ = ___\nprint(_a_)", "x = 2", "zzz = 1", "print(zzz)", "_a_ = _a_ - _b_", "y = ___", "___ = x", "_a_ = ___\n_a_ = ___", "print(_a_, _b_)", "print(_a_, _a_)"]
progs = [(s,) for s in STM] + list(itertools.product(STM, repeat=2))
n = nm = bad = 0; t0 = time.time(); shown = 0
for prog in progs:
    code = "\n".join(prog) + "\n"
    clear_report(); contextualize_report(code)
    for pat in PATS:
        n += 1
        ms = find_matches(pat)
        for m in ms:
            nm += 1
            try: ok = witness(pat, m)
            except Exception as e: ok = 'EXC ' + repr(e)
            if ok is not True:
                bad += 1
                if shown < 15: shown += 1; print("C10 NO WITNESS", ok, "| pattern", repr(pat), "| code", repr(code), "| root", type(m.match_root.astNode).__name__, getattr(m.match_root.astNode, 'lineno', None), {k: v.id for k, v in m.symbol_table.items()})
print("pairs", n, "matches", nm, "bad", bad, "time", round(time.time() - t0, 1))
