import itertools, io, contextlib, time
from pedal.core.commands import *
from pedal.sandbox.commands import *
DEFS = "def sil():\n    return 1\ndef pr():\n    print('in pr')\ndef rd():\n    v = input('p>')\n    print('got', v)\n    return v\n"
PROGS = {'silent': "z = 1", 'a': "print('a')", 'noeol': "print('b', end='')", 'blank': "print('c  ')\nprint()\nprint('d')\nprint()", 'write': "import sys\nsys.stdout.write('w1\\nw2')",
         'read1': "v = input()\nprint(v)", 'read2': "v = input('one?')\nw = input('two?')\nprint(v, w)", 'read3': "print(input(), input(), input())", 'raise': "print('before')\nraise ValueError('x')\nprint('after')"}
OPS = [('run', k) for k in PROGS] + [('call', 'sil'), ('call', 'pr'), ('call', 'rd'), ('eval', '1+1'), ('clear_output',), ('set_input', ['i1', 'i2']), ('set_input', 'solo'), ('queue_input', 'q1', 'q2'), ('clear_input',)]
def echo(prompt): return prompt + "\n"      # calibrated in the real check
DEFAULT = '0'
class Model:
    def __init__(self): self.raw = ""; self.lines = []; self.inputs = []; self.ctx = []
    def execute(self, code, env_extra=None):
        out = io.StringIO(); used = []
        def inp(prompt=""):
            out.write(echo(prompt)); v = self.inputs.pop(0) if self.inputs else DEFAULT; used.append(v); return v
        env = self.ns; env['input'] = inp
        try:
            with contextlib.redirect_stdout(out): exec(compile(code, 'answer.py', 'exec'), env)
        except Exception: pass
        env.pop('input', None)
        text = out.getvalue(); self.raw += text
        if text: self.lines.extend(l.rstrip() for l in text.rstrip().split("\n"))
        self.ctx.append((text, used))
    ns = {}
def apply_model(m, op):
    k = op[0]
    if k == 'run': m.execute(PROGS[op[1]])
    elif k == 'call': m.execute(f"_ = {op[1]}()")
    elif k == 'eval': m.execute(f"_ = {op[1]}")
    elif k == 'clear_output': m.raw = ""; m.lines = []
    elif k == 'set_input': m.inputs = [op[1]] if isinstance(op[1], str) else list(op[1])
    elif k == 'queue_input': m.inputs.extend(op[1:])
    elif k == 'clear_input': m.inputs = []
def apply_real(op):
    k = op[0]
    if k == 'run': run(PROGS[op[1]])
    elif k == 'call': call(op[1])
    elif k == 'eval': evaluate(op[1])
    elif k == 'clear_output': clear_output()
    elif k == 'set_input': set_input(op[1] if isinstance(op[1], str) else list(op[1]))
    elif k == 'queue_input': queue_input(*op[1:])
    elif k == 'clear_input': clear_input()
n = bad = 0; kinds = {}; shown = 0; t0 = time.time()
for L in (1, 2, 3):
    for hist in itertools.product(OPS, repeat=L):
        clear_report(); contextualize_report(DEFS); run(); sb = get_sandbox(); clear_output()
        m = Model(); m.ns = {}; exec(DEFS, m.ns)
        nctx0 = len(sb._context)
        prob = None
        for i, op in enumerate(hist):
            try: apply_real(op)
            except Exception as e: prob = ('RAISED', op[0], repr(e)[:40]); break
            apply_model(m, op)
            if get_raw_output() != m.raw: prob = ('raw', i); break
            if list(get_output()) != m.lines: prob = ('lines', i); break
            if list(get_input()) != m.inputs: prob = ('inputs', i); break
            real_ctx = [(c.output, list(c.inputs)) for c in sb._context[nctx0:] if c.kind != 'getitem']
            if real_ctx != m.ctx: prob = ('ctx', i); break
        n += 1
        if prob:
            bad += 1; kinds[prob[0]] = kinds.get(prob[0], 0) + 1
            if shown < 10 and prob[0] != 'lines': shown += 1; print(prob, hist, "\n   real", repr(get_raw_output())[:80], list(get_output())[:8], list(get_input()), "\n   model", repr(m.raw)[:80], m.lines[:8], m.inputs)
print("histories", n, "bad", bad, kinds, "time", round(time.time() - t0, 1))
