"""Prototype: baton scheduler over real pedal timeout path using sys.monitoring LINE events."""
import sys, threading, time, os
import pedal.sandbox.sandbox as sbmod
import pedal.sandbox.timeout as tomod
from pedal.core.commands import contextualize_report
from pedal.core.report import MAIN_REPORT
from pedal.sandbox.commands import get_sandbox

mon = sys.monitoring
TOOL = 4
WATCH = {sbmod.__file__, tomod.__file__}

class Sched:
    def __init__(self, choices):
        self.choices = list(choices)   # prefix of choices to replay
        self.trace = []                # (enabled, chosen)
        self.sems = {}
        self.current = 'G'
        self.alive = {'G': True}
        self.pending = {}
        self.at_join = False
        self.lock = threading.Lock()
        self.log = []
        self.tsteps = 0
    def register(self, name):
        self.sems[name] = threading.Semaphore(0)
        self.alive[name] = True
    def enabled(self):
        en = []
        # canonical: current first if alive
        names = ['G', 'T']
        if self.current in names and self.alive.get(self.current) :
            names.remove(self.current); names.insert(0, self.current)
        for n in names:
            if n in self.sems and self.alive.get(n) and not (n == 'T' and self.blocked_T):
                en.append(n)
        return en
    blocked_T = False
    def point(self, me, where):
        # called by thread `me` (holding baton) before executing a step
        en = self.enabled()
        if len(en) > 1:
            i = len(self.trace)
            c = self.choices[i] if i < len(self.choices) else 0
            self.trace.append((tuple(en), c, where))
            nxt = en[c]
        else:
            nxt = en[0]
        if nxt != me:
            self.current = nxt
            self.sems[nxt].release()
            self.sems[me].acquire()
        # deliver pending async exception
        exc = self.pending.pop(me, None)
        if exc is not None:
            self.log.append(('deliver', me, where))
            raise exc
    def finish(self, me):
        self.alive[me] = False
        en = self.enabled()
        if en:
            self.current = en[0]
            self.sems[en[0]].release()

S = None
names = {}
def tname():
    return names.get(threading.get_ident())

def line_cb(code, line):
    if code.co_filename not in WATCH and code.co_filename != 'answer.py':
        return mon.DISABLE
    me = tname()
    if me is None or S is None:
        return
    S.point(me, (os.path.basename(code.co_filename), line))

# interposition
orig_run = tomod.InterruptableThread.run
def run_wrap(self):
    names[threading.get_ident()] = 'T'
    S.sems['T'].acquire()          # wait for first scheduling
    try:
        orig_run(self)
    finally:
        S.log.append(('T-finished',))
        S.finish('T')
def join_wrap(self, timeout=None):
    # G blocks: modelled as yield; timer may fire whenever G is chosen
    while S.alive['T']:
        en = S.enabled()
        i = len(S.trace)
        c = S.choices[i] if i < len(S.choices) else 0
        S.trace.append((tuple(en), c, 'join'))
        if en[c] == 'G':
            S.log.append(('timer-fires',))
            return
        S.current = 'T'; S.sems['T'].release(); S.sems['G'].acquire()
def async_raise(thread_id, exception):
    S.pending['T'] = exception() if isinstance(exception, type) else exception
    S.log.append(('terminate-set',))
def is_alive_wrap(self):
    return S.alive['T']

def one(choices, prog):
    global S
    MAIN_REPORT.clear()
    contextualize_report(prog)
    sb = get_sandbox()
    sb.allowed_time = 5
    S = Sched(choices)
    S.register('G'); S.register('T')
    names[threading.get_ident()] = 'G'
    tomod.InterruptableThread.run = run_wrap
    tomod.InterruptableThread.join = join_wrap
    tomod.InterruptableThread._async_raise = staticmethod(async_raise)
    tomod.InterruptableThread.is_alive = is_alive_wrap
    mon.restart_events()
    err = None
    try:
        sb.run(threaded=True)
        exc1 = sb.exception
        sb.run("print('second')", threaded=False)
    except BaseException as e:
        err = e
    # drain: let T run to completion if still alive
    while S.alive['T'] and not S.blocked_T:
        S.current = 'T'; S.sems['T'].release(); S.sems['G'].acquire()
    obs = dict(err=repr(err), exc1=type(getattr(exc1,'_actual_value',exc1)).__name__ if err is None else None,
               fbs=[f.label+':'+f.title for f in MAIN_REPORT.feedback if f.category=='runtime'],
               out=sb.raw_output, stacks=(len(sb._current_patches), len(sb._current_stdout)),
               stdout_ok=sys.stdout is REAL_STDOUT)
    tr = S.trace; S2 = S; S = None
    return obs, tr, S2.log

REAL_STDOUT = sys.stdout
mon.use_tool_id(TOOL, "verif")
mon.register_callback(TOOL, mon.events.LINE, line_cb)
mon.set_events(TOOL, mon.events.LINE)

PROG = "print('hi')\nwhile True:\n    pass\n"
t0 = time.time()
# DFS over choice sequences with preemption bound
results = {}
count = 0
def explore(prefix, bound):
    global count
    obs, tr, log = one(prefix, PROG)
    count += 1
    key = repr(obs)
    results.setdefault(key, (prefix, len(tr)))
    for i in range(len(prefix), len(tr)):
        en, c, where = tr[i]
        # cost: preemptions so far
        pre = sum(1 for (e, ch, w) in tr[:i] if ch != 0 and w != 'join')
        for alt in range(1, len(en)):
            cost = pre + (0 if where == 'join' else 1)
            if cost > bound: continue
            explore([t[1] for t in tr[:i]] + [alt], bound)
explore([], int(sys.argv[1]) if len(sys.argv)>1 else 1)
print("executions", count, "distinct", len(results), "time", time.time()-t0)
for k,(p,n) in results.items(): print(n, p[:40], k[:300])
