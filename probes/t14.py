import sys, time
from pedal.core.commands import contextualize_report
from pedal.core.report import MAIN_REPORT
from pedal.sandbox.commands import run, get_sandbox, get_exception, get_output
real_sleep = time.sleep
contextualize_report("print('hi')\nwhile True:\n    pass\n")
sb = get_sandbox()
sb.allowed_time = 0.3
t0=time.time()
so = sys.stdout
run(threaded=True)
print("wall", time.time()-t0, "stdout same", sys.stdout is so, "sleep", time.sleep is real_sleep)
print("exc", type(sb.exception), repr(sb.exception)[:80])
print("fb", [(f.category, f.label, f.title) for f in MAIN_REPORT.feedback])
real_sleep(0.5)
print("after wait: exc", type(sb.exception), repr(sb.exception)[:80])
print("fb", [(f.category, f.label, f.title) for f in MAIN_REPORT.feedback])
print("stacks", sb._current_patches, sb._current_stdout, "raw", repr(sb.raw_output))
run("print('second')")
print("out", sb.output, repr(sb.raw_output), "exc", sb.exception, "stacks", sb._current_patches, sb._current_stdout)
print("stdout same", sys.stdout is so, "sleep", time.sleep is real_sleep)
