import itertools, sys
from pedal.core.commands import *
from pedal.core.report import MAIN_REPORT
from pedal.tifa import tifa_analysis
# AST of mini-language: ('asg', v) | ('rd', v) | ('cp', v, w)  [v = w] | ('if', [then], [else])  | ('if1', [then])
VARS = ['x', 'y']
def stmts(depth):
    base = [('asg', v) for v in VARS] + [('rd', v) for v in VARS] + [('cp', 'x', 'y'), ('cp', 'y', 'x'), ('cp','x','x')]
    yield from base
    if depth > 0:
        inner = list(blocks(depth-1, 1))
        for t in inner:
            yield ('if1', t)
        for t in inner:
            for e in inner:
                yield ('if', t, e)
def blocks(depth, maxlen):
    ss = list(stmts(depth))
    for n in range(1, maxlen+1):
        for combo in itertools.product(ss, repeat=n):
            yield list(combo)
def render(block, ind, lines):
    for s in block:
        k = s[0]
        if k == 'asg': lines.append((ind + f"{s[1]} = 1", s))
        elif k == 'rd': lines.append((ind + f"print({s[1]})", s))
        elif k == 'cp': lines.append((ind + f"{s[1]} = {s[2]}", s))
        elif k == 'if1':
            lines.append((ind + "if c:", None)); render(s[1], ind+"    ", lines)
        elif k == 'if':
            lines.append((ind + "if c:", None)); render(s[1], ind+"    ", lines)
            lines.append((ind + "else:", None)); render(s[2], ind+"    ", lines)
# oracle: enumerate all paths; state per path = (assigned set, readsince: dict var-> bool read since last assign, everassigned)
def paths(block, states):
    # states: list of dict(assigned=frozenset, unread=frozenset(vars whose last assignment not yet read), log=list)
    for s in block:
        k = s[0]
        if k in ('if1', 'if'):
            a = paths(s[1], [dict(st) for st in states])
            b = paths(s[2], [dict(st) for st in states]) if k == 'if' else [dict(st) for st in states]
            states = a + b
        else:
            new = []
            for st in states:
                asg, unread, reads = st['asg'], st['unread'], st['reads']
                if k in ('rd', 'cp'):
                    v = s[1] if k == 'rd' else s[2]
                    reads = reads + ((id(s), v, v in asg),)
                    unread = unread - {v}
                if k in ('asg', 'cp'):
                    asg = asg | {s[1]}; unread = unread | {s[1]}
                new.append(dict(asg=asg, unread=unread, reads=reads))
            states = new
    return states
def check(block):
    lines = [("c = input()", None)]
    render(block, "", lines)
    code = "\n".join(l for l, _ in lines) + "\n"
    line_of = {id(s): i+1 for i, (_, s) in enumerate(lines) if s is not None}
    # NOTE: ids of repeated identical tuples collide -> make stmts unique objects
    finals = paths(block, [dict(asg=frozenset(), unread=frozenset(), reads=())])
    per_read = {}
    for st in finals:
        for (sid, v, ok) in st['reads']:
            per_read.setdefault((line_of[sid], v), set()).add(ok)
    expect = {}
    for key, oks in per_read.items():
        expect[key] = 'none' if oks == {True} else ('init' if oks == {False} else 'possible')
    everassigned = set().union(*[st['asg'] for st in finals])
    unused_must = {v for v in everassigned if all(v in st['unread'] or v not in st['asg'] for st in finals) and any(v in st['unread'] for st in finals)}
    # must report unused: never read after last assignment on ANY path (on paths where assigned)
    unused_mustnot = {v for v in everassigned if all(v in st['asg'] and v not in st['unread'] for st in finals)}
    clear_report(); contextualize_report(code)
    t = tifa_analysis()
    assert t.success, (code, t.error)
    got = {}
    for label, kind in [('initialization_problem', 'init'), ('possible_initialization_problem', 'possible'), ('read_out_of_scope','init')]:
        for i in t.issues.get(label, []):
            got[(i.location.line, i.fields['name'])] = kind
    bad = []
    for key, kind in expect.items():
        g = got.get(key, 'none')
        if g != kind: bad.append(('read', key, 'expected', kind, 'got', g))
    for key in got:
        if key not in expect: bad.append(('spurious', key, got[key]))
    un = {i.fields['name'] for i in t.issues.get('unused_variable', [])}
    for v in unused_must:
        if v not in un: bad.append(('unused-missing', v))
    for v in unused_mustnot:
        if v in un: bad.append(('unused-spurious', v))
    return code, bad
def uniq(block):
    out = []
    for s in block:
        if s[0] == 'if1': out.append(('if1', uniq(s[1])))
        elif s[0] == 'if': out.append(('if', uniq(s[1]), uniq(s[2])))
        else: out.append(tuple(list(s)))  # new tuple object
    return out
import copy
n = 0; nbad = 0; shown = 0
kinds = {}
import random
ALL = list(blocks(2, 1))
print('total', len(ALL))
for block in ALL:
    block = [list(s) if False else s for s in block]
    # make unique objects
    def mk(b):
        r = []
        for s in b:
            if s[0] == 'if1': r.append(['if1', mk(s[1])])
            elif s[0] == 'if': r.append(['if', mk(s[1]), mk(s[2])])
            else: r.append(list(s))
        return r
    code, bad = check(mk(block))
    n += 1
    if bad:
        nbad += 1
        kinds[bad[0][0]] = kinds.get(bad[0][0], 0) + 1
        if shown < 12:
            shown += 1; print("----\n" + code, bad)
print("programs", n, "bad", nbad, kinds)
