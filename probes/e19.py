import ast, itertools, time, warnings
warnings.filterwarnings('ignore')
from pedal.core.commands import *
from pedal.core.report import MAIN_REPORT
from pedal.source import verify
TOK = ['a', '=', '1', '(', ')', ':', '\n', ' ', '\t', 'if ', 'def ', "'", '#', '\\', '\x00', '\r', '\x0c', 'é', '"""']
n = bad = 0; kinds = {}; t0 = time.time(); shown = 0
for L in range(0, 5):
    for combo in itertools.product(TOK, repeat=L):
        src = ''.join(combo)
        n += 1
        try:
            tree = ast.parse(src, 'answer.py'); cp = None
        except BaseException as e:
            cp = e
        clear_report(); contextualize_report(src)
        try:
            r = verify()
            fbs = [f for f in MAIN_REPORT.feedback if f.category == 'syntax']
            syn = [f for f in fbs if f.label in ('syntax_error', 'indentation_error')]
            blank = [f for f in fbs if f.label == 'blank_source']
            prob = None
            if (cp is not None) != bool(syn): prob = 'iff'
            elif cp is not None and getattr(cp, 'lineno', None) is not None and syn[0].location.line != cp.lineno: prob = 'line'
            elif src.strip() == '' and not blank: prob = 'blank'
            elif cp is None and ast.dump(MAIN_REPORT['source']['ast']) != ast.dump(tree): prob = 'tree'
            elif len(syn) > 1: prob = 'dup'
        except BaseException as e:
            prob = 'RAISED ' + type(e).__name__ + ' cp=' + type(cp).__name__
        if prob:
            bad += 1; kinds[prob] = kinds.get(prob, 0) + 1
            if shown < 12 and not prob.startswith('RAISED TypeError'): shown += 1; print(prob, repr(src), type(cp).__name__, getattr(cp, 'lineno', None))
print("strings", n, "bad", bad, "time", round(time.time() - t0, 1), kinds)
