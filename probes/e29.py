import sys, time, itertools
from pedal.core.commands import *
from pedal.core.report import MAIN_REPORT
from pedal.sandbox.commands import *
REAL = sys.stdout; RS = time.sleep
BASE = "def ok():\n    print('in ok')\n    return 1\ndef exc():\n    raise ValueError('v')\ndef sysx():\n    raise SystemExit(1)\ndef kbi():\n    raise KeyboardInterrupt()\ndef gen():\n    raise GeneratorExit()\nclass B(BaseException): pass\ndef bex():\n    raise B()\n"
TERMS = ['ok', 'exc', 'sysx', 'kbi', 'gen', 'bex']
ENTRIES = ['run', 'call', 'evaluate']
TRACERS = ['none', 'native', 'calls']
OPS = list(itertools.product(ENTRIES, TERMS, TRACERS))
def snapshot():
    return (sys.stdout, time.sleep, sys.gettrace(), dict(sys.modules))
def same(a, b):
    probs = []
    if a[0] is not b[0]: probs.append('stdout')
    if a[1] is not b[1]: probs.append('sleep')
    if a[2] is not b[2]: probs.append('trace')
    if set(a[3]) != set(b[3]) or any(a[3][k] is not b[3][k] for k in a[3] if k in b[3]): probs.append('modules')
    return probs
n = bad = 0; kinds = {}
def note(k, d):
    global bad
    bad += 1
    if k not in kinds: print(k, d)
    kinds[k] = kinds.get(k, 0) + 1
for hist in itertools.chain(((o,) for o in OPS), itertools.product(OPS, repeat=2)):
    clear_report(); contextualize_report(BASE); sb = get_sandbox(); run(); clear_output()
    n += 1
    for (entry, term, tracer) in hist:
        sb.tracer_style = tracer
        before = snapshot(); raised = None
        try:
            if entry == 'run': run(f"{term}()")
            elif entry == 'call': call(term)
            else: evaluate(f"{term}()")
        except BaseException as e: raised = e
        after = snapshot()
        probs = same(before, after)
        if sb._current_patches or sb._current_stdout: probs.append('stacks')
        if probs:
            note(f"leak {probs} after {entry}/{term}/{tracer} raised={type(raised).__name__ if raised else None}", hist)
            sys.stdout = REAL; time.sleep = RS; sys.settrace(None)
            for k in set(sys.modules) - set(before[3]): del sys.modules[k]
            sb._current_patches.clear(); sb._current_stdout.clear()
            break
    else:
        clear_output(); sb.tracer_style = 'none'
        try:
            run("print('probe')")
            if get_raw_output() != 'probe\n': note('probe output wrong', (hist, get_raw_output()))
        except BaseException as e: note('probe raised', (hist, repr(e)))
print("histories", n, "bad", bad)
for k, v in sorted(kinds.items(), key=lambda kv: -kv[1])[:40]: print(v, k)
