"""Driver C: a cooperative scheduler that owns every thread switch, the timer and the
asynchronous exception of pedal's time-out path (DESIGN.md 1.4).

 * scheduling points: sys.monitoring LINE events of pedal/sandbox/{sandbox,timeout}.py and
   of student code (answer.py); one thread runs between two points (per-thread baton);
 * InterruptableThread.start/run/join/is_alive/_async_raise/raise_exception are replaced by
   attribute assignment; join(duration) is a yield in which the timer may fire after any
   number k <= K of student steps; the async exception is delivered at the student thread's
   next point; wall-clock time is never read;
 * threading.Lock objects created by pedal.sandbox.sandbox are replaced by SchedLock so that a
   lock-based hand-off is explored as well (a real lock would hang a cooperative scheduler);
 * every decision goes through ctx.choose(n, tag, costs): pre-empting a runnable thread costs 1.
"""
import ast
import os
import sys
import threading

mon = sys.monitoring
TOOL = 3

CUR = None            # the scheduler of the running execution
NAMES = {}            # thread ident -> name
_installed = False
_orig = {}
WATCH = set()
SHARED = {}
FILTER = False
STUDENT_FILE = 'answer.py'
STUDENT_FILES = {'answer.py', 'helper.py'}      # the student's main file and a second file of the submission it may import


class Abort(BaseException):
    """Raised inside an abandoned thread at the end of an execution to unwind it."""


class StepHorizon(BaseException):
    """The grader thread made more scheduling steps in one execution than any terminating run needs
    (an explicit horizon: code that polls until something happens never goes quiescent)."""


class Deadlock(Exception):
    pass


class Scheduler:
    def __init__(self, ctx, k_join, drain=400):
        self.ctx = ctx
        self.sems = {'G': threading.Semaphore(0)}
        self.alive = {'G': True}
        self.started = {}
        self.blocked_forever = set()
        self.pending = {}
        self.ever_interrupted = set()      # threads an interrupt was ever addressed to
        # who waits in join() on whom: joiner -> {'target', 'timed', 'steps'}; the grader waits on the runner, and a
        # runner importing another student file under a time limit waits on that import's own thread
        self.waits = {}
        self.marked_stopped = set()      # threads CPython believes stopped (see join_wrap)
        self.inner_timer_fired = False
        self.k_join = k_join
        self.timer_fired = False
        self.log = []
        self.seen = {}
        self.aborting = False
        self.threads = {}
        self.n_threads = 0
        self.steps = 0
        self.locks = []
        self.drain_limit = drain
        self.draining = False
        self.drain_steps = 0
        self.drain_exhausted = False
        self.student_steps = 0
        self.zero_join_at = -1
        self.step_limit = 20000      # longest execution of the unchanged tree: ~1.1 k steps
        self.horizon_hit = False

    # -- helpers ------------------------------------------------------------------------
    def runnable(self, n):
        if n in self.waits:
            return False
        if n == 'G':
            return self.alive['G']
        return self.started.get(n) and self.alive.get(n) and n not in self.blocked_forever

    def waiters_on(self, me):
        """The chain of joiners whose (timed) wait can end while `me` runs: who waits on me, who waits on them, ..."""
        chain, cur = [], me
        while True:
            j = next((j for j, w in self.waits.items() if w['target'] == cur), None)
            if j is None:
                return chain
            chain.append(j)
            cur = j

    def fire(self, me, joiner, where):
        """The time limit of `joiner`'s join() is over: it runs next."""
        if joiner == 'G':
            self.timer_fired = True
        else:
            self.inner_timer_fired = True
        self.waits.pop(joiner, None)
        self.log.append(('timer fires', where) if joiner == 'G' else ('timer of', joiner, 'fires', where))
        self.switch(me, joiner)

    def never_interrupted(self):
        """started threads that are still alive and that nobody ever addressed an interrupt to"""
        return sorted(n for n in self.alive if n != 'G' and self.started.get(n) and self.alive.get(n)
                      and n not in self.ever_interrupted)

    def others(self, me):
        return [n for n in self.alive if n != me and self.runnable(n)]

    def switch(self, me, nxt):
        if nxt == me:
            return
        self.seen[nxt] = set()
        self.sems[nxt].release()
        self.sems[me].acquire()

    # -- the scheduling point -----------------------------------------------------------
    def point(self, me, where):
        if self.aborting:
            if me != 'G':
                raise Abort()
            return
        self.steps += 1
        if me != 'G':
            self.student_steps += 1
        if me == 'G' and self.steps > self.step_limit and (self.steps - self.step_limit) % 500 == 1:
            # raised again every 500 steps: code under test that swallows it once must not run on for ever
            self.horizon_hit = True
            self.log.append(('step horizon reached', where))
            raise StepHorizon('the grader thread is still running after %d scheduling steps' % self.step_limit)
        ctx = self.ctx
        chain = self.waiters_on(me) if (me != 'G' and self.waits) else []
        timed = [j for j in chain if self.waits[j]['timed']]
        if self.draining:
            # the grader is done: abandoned threads run alone, up to a horizon (a runner still waiting for its
            # import's thread is woken when that wait's time is over)
            if me != 'G':
                self.drain_steps += 1
                if self.drain_steps > self.drain_limit:
                    self.drain_exhausted = True
                    self.log.append(('drain horizon reached', me))
                    raise Abort()
                if timed:
                    w = self.waits[timed[0]]
                    w['steps'] += 1
                    if w['steps'] > self.k_join or ctx.choose(2, 'timer(%s)@%s:%s' % ((timed[0],) + where), costs=(0, 0)):
                        self.fire(me, timed[0], where)
        elif me != 'G' and chain and not timed:
            pass       # waited for without a time limit: the thread simply continues
        elif me != 'G' and timed:
            # somebody waits in join(duration): the thread continues, or one of the timers fires now
            forced = None
            for j in timed:
                self.waits[j]['steps'] += 1
                if forced is None and self.waits[j]['steps'] > self.k_join:
                    forced = j
            if forced is not None:
                self.fire(me, forced, where)
            elif len(timed) == 1:
                if ctx.choose(2, 'timer@%s:%s' % where, costs=(0, 0)):
                    self.fire(me, timed[0], where)
            else:
                c = ctx.choose(1 + len(timed), 'timers@%s:%s' % where, costs=(0,) * (1 + len(timed)))
                if c:
                    self.fire(me, timed[c - 1], where)
        elif me != 'G' and where[0] in STUDENT_FILES and where in self.seen.setdefault(me, set()) and self.runnable('G'):
            # a spinning student loop revisits a line: forced zero-cost yield (loom's rule)
            self.seen[me] = set()
            self.switch(me, 'G')
        else:
            if me != 'G':
                self.seen.setdefault(me, set()).add(where)
            oth = self.others(me)
            if oth:
                en = [me] + oth
                c = ctx.choose(len(en), '%s@%s:%s' % (me, where[0], where[1]), costs=(0,) + (1,) * len(oth))
                if c:
                    self.log.append(('preempt', me, where, en[c]))
                    self.switch(me, en[c])
        if self.aborting and me != 'G':
            raise Abort()
        exc = self.pending.pop(me, None)
        if exc is not None:
            self.log.append(('deliver', me, where))
            raise exc

    def finish(self, me):
        self.alive[me] = False
        self.log.append(('finished', me))
        if self.aborting:
            return
        for j in [j for j, w in self.waits.items() if w['target'] == me]:
            del self.waits[j]          # its join() returns
        # hand the baton to somebody runnable (the grader first)
        for n in ['G'] + [x for x in self.alive if x != 'G']:
            if n != me and self.runnable(n):
                self.sems[n].release()
                return

    def block_forever(self, me):
        """The student thread blocks in C forever (never scheduled again)."""
        self.log.append(('blocks forever', me))
        self.blocked_forever.add(me)
        for j in [j for j, w in self.waits.items() if w['target'] == me]:
            # nothing can happen but the timer
            if j == 'G':
                self.timer_fired = True
            else:
                self.inner_timer_fired = True
            del self.waits[j]
            self.log.append(('timer fires', 'student blocked'))
        nxt = [n for n in self.alive if n != me and self.runnable(n)]
        if not nxt:
            raise Deadlock('no runnable thread')
        self.sems[nxt[0]].release()
        self.sems[me].acquire()          # until the end of the execution (abort)
        if self.aborting:
            return

    # -- end of an execution -------------------------------------------------------------
    def drain(self):
        """After the grader is done: let abandoned threads run to completion (bounded horizon)."""
        self.draining = True
        self.drain_steps = 0
        n = 0
        while True:
            t = [x for x in self.alive if x != 'G' and self.runnable(x)]
            if not t:
                break
            n += 1
            self.sems[t[0]].release()      # it runs alone until it ends (finish() hands the baton back)
            self.sems['G'].acquire()
        self.draining = False
        return n

    def abort_all(self):
        self.aborting = True
        for n, th in list(self.threads.items()):
            if self.alive.get(n):
                self.sems[n].release()
        for n, th in list(self.threads.items()):
            th_join = _orig['join']
            th_join(th, 5.0)


class SchedLock:
    """threading.Lock replacement whose blocking is visible to the scheduler."""

    def __init__(self):
        self.holder = None

    def acquire(self, blocking=True, timeout=-1):
        s = CUR
        me = NAMES.get(threading.get_ident())
        if s is None or me is None or s.aborting:
            self.holder = me
            return True
        waits = 0
        while self.holder is not None and self.holder != me:
            if not blocking:
                return False
            h = self.holder
            waits += 1
            if me == 'G' and waits > s.step_limit // 4:
                # every hand-over let the holder make a step and it still holds the lock: the grader would wait for ever
                s.horizon_hit = True
                s.log.append(('step horizon reached', 'waiting for a lock held by ' + str(h)))
                raise StepHorizon('the grader thread still waits for a lock held by %s after %d hand-overs' % (h, waits))
            s.log.append(('blocks on lock', me, 'held by', h))
            if not s.runnable(h):
                raise Deadlock('%s waits for a lock held by %s which cannot run' % (me, h))
            s.switch(me, h)          # forced: nothing else can make progress for us
            if s.aborting:
                self.holder = me
                return True
        self.holder = me
        return True

    def release(self):
        self.holder = None

    def locked(self):
        return self.holder is not None

    __enter__ = acquire

    def __exit__(self, *a):
        self.release()


class _FakeThreading:
    """What pedal.sandbox.sandbox sees as the `threading` module while the scheduler is installed."""

    def __getattr__(self, name):
        if name in ('Lock', 'RLock'):
            return SchedLock
        return getattr(threading, name)


def shared_lines(path):
    src = open(path).read()
    tree = ast.parse(src)
    keep = set()
    for node in ast.walk(tree):
        if isinstance(node, ast.Attribute) and isinstance(node.value, ast.Name) and node.value.id in (
                'self', 'sys', 'a_patch', 'target_thread', 'context', 'current_stdout', 'report'):
            keep.add(node.lineno)
        if isinstance(node, (ast.Raise, ast.Return, ast.With)):
            keep.add(node.lineno)
    return keep


def _line_cb(code, line):
    fn = code.co_filename
    if fn not in WATCH and fn not in STUDENT_FILES:
        return mon.DISABLE
    if FILTER and fn in SHARED and line not in SHARED[fn]:
        return mon.DISABLE
    s = CUR
    if s is None:
        return
    me = NAMES.get(threading.get_ident())
    if me is None:
        return
    s.point(me, (os.path.basename(fn), line))


def install():
    """Interpose on InterruptableThread (idempotent, per process)."""
    global _installed
    if _installed:
        return
    import pedal.sandbox.sandbox as sbmod
    import pedal.sandbox.timeout as tomod
    IT = tomod.InterruptableThread
    _orig.update(run=IT.run, start=IT.start, join=IT.join, is_alive=IT.is_alive, async_raise=IT._async_raise)
    import pedal.sandbox.mocked as mkmod
    WATCH.update({sbmod.__file__, tomod.__file__, mkmod.__file__})    # mocked.py: the import hook writes sys.modules
    for p in WATCH:
        SHARED[p] = shared_lines(p)

    def run_wrap(self):
        s = CUR
        name = getattr(self, '_verif_name', None)
        if s is None or name is None:
            return _orig['run'](self)
        NAMES[threading.get_ident()] = name
        self._verif_ready.set()
        s.sems[name].acquire()
        try:
            if not s.aborting:
                try:
                    _orig['run'](self)
                except Abort:
                    pass
        finally:
            NAMES.pop(threading.get_ident(), None)
            s.finish(name)

    def start_wrap(self):
        s = CUR
        if s is None:
            return _orig['start'](self)
        s.n_threads += 1
        name = 'T%d' % s.n_threads
        self._verif_name = name
        s.sems[name] = threading.Semaphore(0)
        s.alive[name] = True
        s.threads[name] = self
        self._verif_ready = threading.Event()
        _orig['start'](self)
        self._verif_ready.wait(5.0)
        s.started[name] = True
        s.log.append(('started', name))

    def join_wrap(self, timeout=None):
        s = CUR
        name = getattr(self, '_verif_name', None)
        if s is None or name is None or s.aborting:
            return _orig['join'](self, timeout)
        if not s.alive[name]:
            return
        if not s.runnable(name):
            if timeout is None:
                raise Deadlock('join() without a time limit on a thread that is blocked forever')
            # student blocked forever: only the timer can end the wait
            if (NAMES.get(threading.get_ident()) or 'G') == 'G':
                s.timer_fired = True
            else:
                s.inner_timer_fired = True
            s.log.append(('timer fires', 'join on a blocked thread'))
            return
        joiner = NAMES.get(threading.get_ident()) or 'G'
        if timeout is not None:
            # the timer may fire at once (0) or the student runs first (1): a free choice -- except that a
            # grader polling with timed waits must let the other thread run between two of them (fairness:
            # a real join(t) that times out twice in a row with a runnable student that never ran does not exist)
            if s.zero_join_at == s.student_steps:
                c = 1
            else:
                c = s.ctx.choose(2, 'join:timer-first|student-first', costs=(0, 0))
            if c == 0:
                if joiner == 'G':
                    s.timer_fired = True
                else:
                    s.inner_timer_fired = True
                s.zero_join_at = s.student_steps
                s.log.append(('timer fires', 'at once'))
                return
        s.waits[joiner] = {'target': name, 'timed': timeout is not None, 'steps': 0}
        s.seen[name] = set()
        s.sems[name].release()
        s.sems[joiner].acquire()
        s.waits.pop(joiner, None)
        s.log.append(('join returns', 'student alive' if s.alive[name] else 'student finished'))
        if joiner != 'G':
            if s.aborting:
                raise Abort()
            exc = s.pending.pop(joiner, None)
            if exc is not None:
                # an asynchronous exception set while this thread was waiting arrives as soon as it runs again, i.e.
                # inside threading.Thread.join().  CPython (bpo-45274 work-around in _wait_for_tstate_lock, 3.9.8+)
                # then finds the joined thread's state lock "locked", takes that for its own interrupted acquire,
                # releases it and marks the *joined* thread as stopped although it is running: from now on
                # is_alive() of that thread is False.  Observed with real threads on this interpreter (3.12.1).
                if s.alive.get(name):
                    s.marked_stopped.add(name)
                    s.log.append(('CPython marks', name, 'as stopped (exception inside join)'))
                s.log.append(('deliver', joiner, 'after join'))
                raise exc

    def is_alive_wrap(self):
        s = CUR
        name = getattr(self, '_verif_name', None)
        if s is None or name is None:
            return _orig['is_alive'](self)
        return bool(s.alive.get(name)) and name not in s.marked_stopped

    def async_raise(thread_id, exception):
        s = CUR
        if s is None:
            # no controlled execution is running (the free-running pass): the real interrupt
            return _orig['async_raise'](thread_id, exception)
        name = NAMES.get(thread_id)
        if name is None or not s.alive.get(name):
            raise ValueError("nonexistent thread id")      # what PyThreadState_SetAsyncExc reports
        s.pending[name] = exception() if isinstance(exception, type) else exception
        s.ever_interrupted.add(name)
        s.log.append(('async exception set for', name))

    IT.run = run_wrap
    IT.start = start_wrap
    IT.join = join_wrap
    IT.is_alive = is_alive_wrap
    IT._async_raise = staticmethod(async_raise)
    # pedal's own raise_exception/terminate are left untouched: they look the (real, parked) thread up in
    # threading._active and call _async_raise(thread_id, exc), which is routed to the scheduler's table
    if hasattr(sbmod, 'threading'):
        sbmod.threading = _FakeThreading()
    if hasattr(tomod, 'threading') and False:
        pass
    try:
        mon.use_tool_id(TOOL, 'verif-sched')
    except ValueError:
        pass
    mon.register_callback(TOOL, mon.events.LINE, _line_cb)
    _installed = True


def begin(ctx, k_join, filtered):
    """Start one controlled execution; the calling thread becomes the grader G."""
    global CUR, FILTER
    install()
    FILTER = filtered
    NAMES.clear()
    NAMES[threading.get_ident()] = 'G'
    CUR = Scheduler(ctx, k_join)
    mon.set_events(TOOL, mon.events.LINE)
    mon.restart_events()
    return CUR


def end():
    """Finish the execution: unwind abandoned threads for real and switch the scheduler off."""
    global CUR
    s = CUR
    if s is not None:
        s.abort_all()
    mon.set_events(TOOL, 0)
    CUR = None
    NAMES.clear()
    return s
