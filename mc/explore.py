"""Replay-based choice-sequence explorer (stateless model checker core).

A *body* is a function body(ctx) that builds fresh real objects and asks
ctx.choose(n, tag) whenever something is undetermined (next operation, argument,
environment answer, fault, thread to run).  The explorer enumerates every choice
sequence (optionally within a deviation bound), executing the body once per complete
sequence.  See DESIGN.md section 1.1.
"""
import hashlib
import multiprocessing
import os
import signal
import sys
import time
import traceback
from collections import Counter


class HarnessError(Exception):
    """Something is wrong with the checking machinery itself (exit 2)."""


class Nondeterminism(HarnessError):
    pass


class Hang(BaseException):
    """Raised by the watchdog inside an execution that exceeded its horizon."""


def digest(s):
    if not isinstance(s, (bytes, str)):
        s = repr(s)
    if isinstance(s, str):
        s = s.encode('utf-8', 'backslashreplace')
    return int.from_bytes(hashlib.sha1(s).digest()[:8], 'big')


class Ctx:
    """Per-execution context handed to a body."""
    __slots__ = ('prefix', 'pre_n', 'pre_tag', 'choices', 'arity', 'tags', 'costs',
                 'cum_cost', 'transitions', 'states', 'nontrivial', 'outcomes',
                 'fails', 'sample', 'evals', 'abstained', 'info', 'tier', 'log', 'hung', 'no_expand')

    def __init__(self, prefix=(), pre_n=(), pre_tag=(), tier='quick'):
        self.prefix = prefix
        self.pre_n = pre_n
        self.pre_tag = pre_tag
        self.choices = []
        self.arity = []
        self.tags = []
        self.costs = []          # cost of the *chosen* alternative and per-alt costs
        self.cum_cost = 0
        self.transitions = 0
        self.states = []
        self.nontrivial = []
        self.outcomes = []
        self.fails = []
        self.sample = None
        self.evals = 0
        self.abstained = 0
        self.info = Counter()
        self.tier = tier
        self.log = []
        self.hung = False        # the wall-clock watchdog fired
        self.no_expand = False   # a body's own horizon was reached: report, do not branch below this execution

    # -- nondeterminism ------------------------------------------------------------
    def choose(self, n, tag='', costs=None):
        """Return an int in range(n).  costs[i] is the deviation cost of alternative i
        (default 0 everywhere: a free choice, enumerated fully)."""
        if n <= 0:
            raise HarnessError('choose() with no alternatives at %r' % (tag,))
        i = len(self.choices)
        if i < len(self.prefix):
            c = self.prefix[i]
            if i < len(self.pre_n) and (self.pre_n[i] != n or self.pre_tag[i] != tag):
                raise Nondeterminism(
                    'replay diverged at choice %d: recorded (n=%r, tag=%r) now (n=%r, tag=%r)'
                    % (i, self.pre_n[i], self.pre_tag[i], n, tag))
            if c >= n:
                raise Nondeterminism('replay diverged at choice %d: %d >= arity %d (tag %r)'
                                     % (i, c, n, tag))
        else:
            c = 0
        self.choices.append(c)
        self.arity.append(n)
        self.tags.append(tag)
        self.costs.append(costs)
        if costs is not None:
            self.cum_cost += costs[c]
        return c

    def pick(self, seq, tag=''):
        return seq[self.choose(len(seq), tag)]

    def flag(self, tag=''):
        return bool(self.choose(2, tag))

    # -- bookkeeping ---------------------------------------------------------------
    def step(self, label=None, n=1):
        """One operation applied to the implementation (a transition)."""
        self.transitions += n
        if label is not None:
            self.log.append(label)

    def observe(self, canon):
        """Canonical rendering of the reached state."""
        self.states.append(digest(canon))

    def mark_nontrivial(self, key):
        self.nontrivial.append(digest(key))

    def outcome(self, key):
        self.outcomes.append(key if isinstance(key, str) else repr(key))

    def evaluated(self, n=1):
        self.evals += n

    def abstain(self, n=1):
        self.abstained += n

    def fail(self, signature, **detail):
        """Record a property violation seen in this execution.  `signature` is a small
        dict of discriminating keys (matched against known_findings.json)."""
        self.fails.append((dict(signature), detail))

    def set_sample(self, s):
        self.sample = s


def _plain(v, depth=0):
    """Failure details travel from the workers to the parent by pickle and end in JSON files: anything that is not
    plain data (an object of a class defined inside a check, a pedal object) is replaced by its repr."""
    if v is None or isinstance(v, (bool, int, float, str)):
        return v
    if depth > 6:
        return repr(v)[:200]
    if isinstance(v, (list, tuple, set, frozenset)):
        return [_plain(x, depth + 1) for x in (sorted(v, key=repr) if isinstance(v, (set, frozenset)) else v)]
    if isinstance(v, dict):
        return {str(k): _plain(x, depth + 1) for k, x in v.items()}
    try:
        return repr(v)[:300]
    except Exception as e:      # noqa
        return '<unprintable %s: %s>' % (type(v).__name__, type(e).__name__)


class Result:
    """Mergeable summary of a set of executions."""

    def __init__(self):
        self.executions = 0
        self.transitions = 0
        self.evaluations = 0
        self.abstained = 0
        self.choice_points = 0
        self.states = set()
        self.nontrivial = set()
        self.outcomes = Counter()
        self.info = Counter()
        self.failures = {}      # sigkey -> dict(signature, count, example)
        self.samples = []
        self.max_depth = 0
        self.max_cost = 0
        self.hangs = 0
        self.cap_hit = False
        self.harness_errors = []

    def absorb_ctx(self, ctx, phase):
        self.executions += 1
        self.hangs += 1 if getattr(ctx, 'hung', False) else 0
        self.transitions += ctx.transitions
        self.evaluations += ctx.evals or 1
        self.abstained += ctx.abstained
        self.choice_points += len(ctx.choices)
        self.states.update(ctx.states)
        self.nontrivial.update(ctx.nontrivial)
        self.outcomes.update(ctx.outcomes)
        self.info.update(ctx.info)
        if len(ctx.choices) > self.max_depth:
            self.max_depth = len(ctx.choices)
        if ctx.cum_cost > self.max_cost:
            self.max_cost = ctx.cum_cost
        if ctx.sample is not None and len(self.samples) < 3:
            self.samples.append(_plain(ctx.sample))
        for sig, detail in ctx.fails:
            key = sigkey(sig)
            ent = self.failures.get(key)
            size = len(ctx.choices)
            if ent is None:
                self.failures[key] = {'signature': _plain(sig), 'count': 1, 'phase': phase,
                                      'choices': list(ctx.choices), 'tags': [str(t) for t in ctx.tags],
                                      'detail': _plain(detail), 'log': _plain(list(ctx.log)[-40:]), 'size': size}
            else:
                ent['count'] += 1

    def merge(self, other):
        self.executions += other.executions
        self.transitions += other.transitions
        self.evaluations += other.evaluations
        self.abstained += other.abstained
        self.choice_points += other.choice_points
        self.states |= other.states
        self.nontrivial |= other.nontrivial
        self.outcomes.update(other.outcomes)
        self.info.update(other.info)
        self.max_depth = max(self.max_depth, other.max_depth)
        self.max_cost = max(self.max_cost, other.max_cost)
        self.hangs += other.hangs
        self.cap_hit = self.cap_hit or other.cap_hit
        self.harness_errors.extend(other.harness_errors)
        for s in other.samples:
            if len(self.samples) < 4:
                self.samples.append(s)
        for key, ent in other.failures.items():
            mine = self.failures.get(key)
            if mine is None:
                self.failures[key] = ent
            else:
                mine['count'] += ent['count']
                if ent['size'] < mine['size']:
                    cnt = mine['count']
                    self.failures[key] = ent
                    ent['count'] = cnt


def sigkey(sig):
    return repr(sorted((str(k), repr(v)) for k, v in sig.items()))


REPO_PREFIX = os.path.realpath(os.environ.get('PEDAL_REPO', '/repo')) + os.sep


def _classify_exception(exc):
    """An exception that escaped a body: pedal's (violation) or the harness's (error)?"""
    tb = traceback.extract_tb(exc.__traceback__)
    inner_repo = None
    for fr in tb:
        if os.path.realpath(fr.filename).startswith(REPO_PREFIX):
            inner_repo = fr
    return inner_repo, tb


class Phase:
    """One exploration: a body, a bound and how to run it."""

    def __init__(self, name, body, bound=None, horizon_s=20.0, setup=None, max_execs=None,
                 describe=None, chunk=None, serial=False):
        self.name = name
        self.body = body
        self.bound = bound
        self.horizon_s = horizon_s
        self.setup = setup          # called once per worker process before its first execution
        self.max_execs = max_execs  # cap per phase (reported if hit)
        self.describe = describe
        self.chunk = chunk
        self.serial = serial


# ---- single execution -------------------------------------------------------------

def _alarm(signum, frame):
    raise Hang()


def run_one(phase, prefix, pre_n=(), pre_tag=(), tier='quick'):
    ctx = Ctx(tuple(prefix), tuple(pre_n), tuple(pre_tag), tier)
    old = signal.signal(signal.SIGALRM, _alarm)
    signal.setitimer(signal.ITIMER_REAL, phase.horizon_s, 2.0)   # repeats: a body that swallows Hang gets it again
    try:
        try:
            phase.body(ctx)
        finally:
            signal.setitimer(signal.ITIMER_REAL, 0)
    except Hang:
        ctx.hung = True
        ctx.fail({'symptom': 'hang', 'phase': phase.name},
                 note='execution exceeded its horizon of %ss' % phase.horizon_s,
                 log=list(ctx.log)[-20:])
    except HarnessError:
        raise
    except BaseException as exc:   # noqa
        if isinstance(exc, KeyboardInterrupt) and not ctx.log:
            raise
        fr, tb = _classify_exception(exc)
        if fr is None:
            raise HarnessError('body %s raised %s: %s\n%s' % (
                phase.name, type(exc).__name__, exc, ''.join(traceback.format_exception(exc))))
        ctx.fail({'symptom': 'exception escaped from pedal', 'exception': type(exc).__name__,
                  'where': '%s:%s' % (os.path.relpath(fr.filename, REPO_PREFIX), fr.name)},
                 message=str(exc)[:300], traceback=''.join(traceback.format_exception(exc))[-1500:])
    finally:
        signal.signal(signal.SIGALRM, old)
    if len(ctx.choices) < len(prefix):
        raise Nondeterminism('phase %s: replayed prefix of %d choices but execution made only %d'
                             % (phase.name, len(prefix), len(ctx.choices)))
    return ctx


def _children(ctx, plen, bound):
    """Untried alternatives of an execution at positions >= plen, within the bound."""
    kids = []
    cum = 0
    costs = ctx.costs
    for i in range(len(ctx.choices)):
        cs = costs[i]
        if i >= plen:
            n = ctx.arity[i]
            if n > 1:
                for alt in range(1, n):
                    c = cs[alt] if cs is not None else 0
                    if bound is None or cum + c <= bound:
                        kids.append(i * 1000003 + alt)  # encoded; decoded by caller
        if cs is not None:
            cum += cs[ctx.choices[i]]
    return kids


def _expand(phase, prefix, pre_n, pre_tag, tier, res):
    ctx = run_one(phase, prefix, pre_n, pre_tag, tier)
    res.absorb_ctx(ctx, phase.name)
    kids = []
    if getattr(ctx, 'no_expand', False):
        # the execution ran into a horizon (reported as a violation): its choice points are an unrolled
        # polling loop, not a space to explore
        res.hangs += 1
        res.cap_hit = True
        return kids
    for code in _children(ctx, len(prefix), phase.bound):
        i, alt = divmod(code, 1000003)
        kids.append((tuple(ctx.choices[:i]) + (alt,), tuple(ctx.arity[:i + 1]), tuple(ctx.tags[:i + 1])))
    return kids


def explore_roots(phase, roots, tier, res, budget=None):
    """Depth-first exploration of the subtrees below `roots`; stops after `budget`
    executions and returns the unexplored remainder of the stack (list of roots)."""
    stack = list(roots)
    stack.reverse()
    n = 0
    while stack:
        prefix, pre_n, pre_tag = stack.pop()
        kids = _expand(phase, prefix, pre_n, pre_tag, tier, res)
        kids.reverse()
        stack.extend(kids)
        n += 1
        if budget is not None and n >= budget:
            break
        if res.hangs >= HANG_CAP:
            break      # every hang costs a full horizon: the driver decides whether to go on
    stack.reverse()
    return stack


# A hang is a violation (the run exits 1 anyway) and costs a whole horizon of wall-clock time: after this many
# the phase is abandoned and reported as capped instead of waiting one horizon per remaining execution.
HANG_CAP = 3

# ---- parallel driver ---------------------------------------------------------------

_W = {}


def _w_init(phases, tier):
    _W['phases'] = phases
    _W['tier'] = tier
    _W['setup_done'] = set()


def _w_setup(pi):
    ph = _W['phases'][pi]
    if pi not in _W['setup_done']:
        _W['setup_done'].add(pi)
        if ph.setup:
            ph.setup()
    return ph


def _w_task(args):
    pi, roots, budget = args
    res = Result()
    left = []
    try:
        ph = _w_setup(pi)
        left = explore_roots(ph, roots, _W['tier'], res, budget)
    except HarnessError as e:
        res.harness_errors.append('%s: %s' % (type(e).__name__, e))
    except BaseException as e:   # noqa
        res.harness_errors.append('worker crashed: %s' % ''.join(traceback.format_exception(e))[-3000:])
    return res, left


def _split(left, nparts):
    """Split the remainder of a DFS stack into tasks: shallow roots (large subtrees)
    individually, the deep tail together."""
    if not left:
        return []
    left = sorted(left, key=lambda r: len(r[0]))
    head = left[:nparts]
    tail = left[nparts:]
    tasks = [[r] for r in head]
    if tail:
        tasks.append(tail)
    return tasks


def run_phases(phases, tier='quick', workers=None, progress=None):
    """Explore every phase; returns {phase name: Result}."""
    import queue as _q
    workers = workers or min(16, os.cpu_count() or 1)
    out = {}
    serial = workers <= 1 or all(p.serial for p in phases)
    pool = None
    if not serial:
        mpc = multiprocessing.get_context('fork')
        pool = mpc.Pool(workers, initializer=_w_init, initargs=(phases, tier))
    else:
        _w_init(phases, tier)
    try:
        abandoned = False
        for pi, ph in enumerate(phases):
            t0 = time.time()
            total = Result()
            if abandoned:
                # an earlier phase was given up after HANG_CAP hangs (violations already recorded; workers may
                # still be inside hung executions): the remaining phases are not run and say so
                total.cap_hit = True
                total.wall_s = 0.0
                out[ph.name] = total
                if progress:
                    progress(ph, total)
                continue
            root = ((), (), ())
            chunk = getattr(ph, 'chunk', None) or 2000
            if pool is None or ph.serial:
                tasks = [[root]]
                while tasks:
                    t = tasks.pop()
                    if ph.max_execs is not None and total.executions >= ph.max_execs:
                        total.cap_hit = True
                        break
                    if pool is None:
                        r, left = _w_task((pi, t, chunk))
                    else:
                        r, left = pool.apply(_w_task, ((pi, t, chunk),))
                    total.merge(r)
                    if left:
                        tasks.append(left)
                    if total.harness_errors:
                        break
                    if total.hangs >= HANG_CAP:
                        total.cap_hit = True
                        break
            else:
                rq = _q.Queue()
                outstanding = 0
                backlog = [[root]]
                first = True
                while backlog or outstanding:
                    while backlog and outstanding < workers * 3:
                        t = backlog.pop()
                        if ph.max_execs is not None and total.executions + outstanding * chunk >= ph.max_execs:
                            total.cap_hit = True
                            backlog = []
                            break
                        # the very first tasks get a small budget so the tree fans out quickly
                        b = 1 if first else chunk
                        pool.apply_async(_w_task, ((pi, t, b),), callback=rq.put,
                                         error_callback=rq.put)
                        outstanding += 1
                    if not outstanding:
                        break
                    try:
                        r = rq.get(timeout=max(900.0, 30 * ph.horizon_s))
                    except _q.Empty:
                        # (a result that cannot be transported kills the pool's result thread silently)
                        total.harness_errors.append('no worker returned anything for %ds: giving up on phase %s'
                                                    % (max(900.0, 30 * ph.horizon_s), ph.name))
                        break
                    outstanding -= 1
                    if isinstance(r, BaseException):
                        total.harness_errors.append('pool error: %r' % (r,))
                        break
                    res, left = r
                    total.merge(res)
                    if total.harness_errors:
                        break
                    if total.hangs >= HANG_CAP:
                        total.cap_hit = True
                        break
                    if first and total.executions >= workers * 2:
                        first = False
                    backlog.extend(_split(left, workers))
                    backlog.sort(key=lambda t: -len(t[0][0]))  # pop() takes the shallowest
            total.wall_s = time.time() - t0
            if total.hangs >= HANG_CAP:
                abandoned = True
            out[ph.name] = total
            if progress:
                progress(ph, total)
    finally:
        if pool is not None:
            pool.terminate()
            pool.join()
    return out


def replay(phase, choices, tier='quick'):
    """Re-execute exactly one recorded case (no exploration)."""
    if phase.setup:
        phase.setup()
    ctx = run_one(phase, tuple(choices), (), (), tier)
    return ctx
