"""Findings, replays and evidence plumbing (DESIGN.md section 1.6)."""
import hashlib
import json
import os
import sys

from . import explore

HERE = os.path.dirname(os.path.dirname(os.path.abspath(__file__)))
KNOWN = os.path.join(HERE, 'known_findings.json')


def load_known(pid):
    if not os.path.exists(KNOWN):
        return []
    data = json.load(open(KNOWN))
    return [f for f in data.get('findings', []) if f.get('property') == pid]


def matches(match, sig):
    for k, v in match.items():
        if k not in sig:
            return False
        sv = sig[k]
        if isinstance(v, list):
            if sv not in v and str(sv) not in [str(x) for x in v]:
                return False
        elif sv != v and str(sv) != str(v):
            return False
    return True


def _printable(s):
    s = str(s)
    return ''.join(ch if (ch.isprintable() or ch in '\n\t') else repr(ch)[1:-1] for ch in s)


def _jsonable(x, depth=0):
    if depth > 6:
        return repr(x)[:200]
    if isinstance(x, (str, int, float, bool)) or x is None:
        return x
    if isinstance(x, dict):
        return {str(k): _jsonable(v, depth + 1) for k, v in x.items()}
    if isinstance(x, (list, tuple, set, frozenset)):
        return [_jsonable(v, depth + 1) for v in list(x)[:200]]
    return repr(x)[:400]


def write_replay(pid, tier, ent):
    d = os.path.join(HERE, 'replays', pid)
    os.makedirs(d, exist_ok=True)
    body = {'property': pid, 'tier': tier, 'phase': ent['phase'], 'choices': ent['choices'],
            'tags': ent.get('tags'), 'signature': _jsonable(ent['signature']),
            'count_in_run': ent['count'], 'detail': _jsonable(ent['detail']),
            'log': _jsonable(ent.get('log')),
            'how_to_replay': '/venv/bin/python /verif/run.py %s --replay <this file>' % pid}
    sha = hashlib.sha1(explore.sigkey(ent['signature']).encode()).hexdigest()[:12]
    path = os.path.join(d, sha + '.json')
    with open(path, 'w') as f:
        json.dump(body, f, indent=1, default=repr)
    return path


def finish(mod, pid, tier, seed, phases, results, wall, write_evidence=True):
    known = load_known(pid)
    total = explore.Result()
    per_phase = {}
    for ph in phases:
        r = results[ph.name]
        total.merge(r)
        per_phase[ph.name] = {
            'executions': r.executions, 'transitions': r.transitions, 'evaluations': r.evaluations,
            'states': len(r.states), 'distinct_nontrivial': len(r.nontrivial),
            'distinct_outcomes': len(r.outcomes), 'choice_points': r.choice_points,
            'max_choice_depth': r.max_depth, 'deviation_bound': ph.bound,
            'max_deviations_used': r.max_cost, 'cap_hit': r.cap_hit, 'abstained': r.abstained,
            'exhaustive_within_bound': not r.cap_hit and not r.harness_errors,
            'wall_s': round(getattr(r, 'wall_s', 0.0), 2),
            'describe': ph.describe,
        }
    if total.harness_errors:
        for e in total.harness_errors[:5]:
            print('HARNESS-ERROR: %s' % e[:3000])
        return 2

    violations = []
    known_hit = {}
    for key, ent in sorted(total.failures.items(), key=lambda kv: kv[1]['size']):
        hit = None
        for k in known:
            if matches(k['match'], ent['signature']):
                hit = k
                break
        if hit is not None:
            rec = known_hit.setdefault(id(hit), [hit, 0, 0])
            rec[1] += ent['count']
            rec[2] += 1
        else:
            violations.append(ent)
    for hit, cnt, classes in known_hit.values():
        print('KNOWN-FINDING: property=%s %s (seen %d times in %d signature classes this run)'
              % (pid, hit['what'], cnt, classes))
    for ent in violations[25:400]:
        write_replay(pid, tier, ent)
    for ent in violations[:25]:
        path = write_replay(pid, tier, ent)
        print('VIOLATION property=%s replay=%s' % (pid, path))
        print('   signature=%s count=%d' % (json.dumps(_jsonable(ent['signature']), sort_keys=True), ent['count']))
        det = ent['detail']
        for k in list(det)[:8]:
            print('   %s: %s' % (k, _printable(str(det[k])[:600])))
    if violations or known_hit:
        d = os.path.join(HERE, 'replays', pid)
        os.makedirs(d, exist_ok=True)
        with open(os.path.join(d, '_summary.json'), 'w') as f:
            json.dump({'violations': [{'signature': _jsonable(e['signature']), 'count': e['count']} for e in violations],
                       'known': [{'what': h['what'], 'count': c} for h, c, n in known_hit.values()]}, f, indent=1)
    if len(violations) > 25:
        print('   ... and %d more violation classes' % (len(violations) - 25))

    exhaustive = all(v['exhaustive_within_bound'] for v in per_phase.values())
    cov = {
        'states': len(total.states),
        'transitions': total.transitions,
        'traces_validated_against_impl': total.executions,
        'evaluations': total.evaluations,
        'distinct_nontrivial': len(total.nontrivial),
        'rule': getattr(mod, 'RULE', ''),
        'samples': [_jsonable(s) for s in total.samples] or ['(no sample recorded)'],
        'exhaustive': bool(exhaustive),
        'exhaustive_note': 'every phase drained its work-list inside the stated bounds' if exhaustive
                           else 'a cap was hit; see phases[*].cap_hit',
        'executions': total.executions,
        'distinct_outcomes': len(total.outcomes),
        'outcome_histogram_top': dict(total.outcomes.most_common(12)),
        'choice_points': total.choice_points,
        'abstained': total.abstained,
        'info': dict(total.info),
        'bounds': _jsonable(mod.bounds(tier)) if hasattr(mod, 'bounds') else {},
        'phases': per_phase,
        'known_findings_seen': [{'what': h['what'], 'count': c, 'classes': n} for h, c, n in known_hit.values()],
        'violation_classes': len(violations),
        'explanation': getattr(mod, 'EXPLANATION', ''),
    }
    ev = {
        'property_id': pid, 'tier': tier, 'seed': seed, 'level': 'model_checking',
        'coverage': cov,
        'assumptions': list(getattr(mod, 'ASSUMPTIONS', [])),
        'wall_s': round(wall, 2),
        'violations': len(violations),
    }
    if write_evidence:
        os.makedirs(os.path.join(HERE, 'evidence'), exist_ok=True)
        with open(os.path.join(HERE, 'evidence', pid + '.json'), 'w') as f:
            json.dump(ev, f, indent=1, sort_keys=True)
    print('[%s] tier=%s executions=%d states=%d transitions=%d nontrivial=%d outcomes=%d '
          'known=%d violations=%d exhaustive=%s wall=%.1fs' % (
              pid, tier, total.executions, len(total.states), total.transitions, len(total.nontrivial),
              len(total.outcomes), len(known_hit), len(violations), exhaustive, wall))
    return 1 if violations else 0


def do_replay(mod, pid, path):
    body = json.load(open(path))
    tier = body.get('tier', 'quick')
    phases = mod.phases(tier)
    ph = [p for p in phases if p.name == body['phase']]
    if not ph:
        print('HARNESS-ERROR: no phase %r' % body['phase'])
        return 2
    import sys
    real_out = sys.stdout          # the phase's setup may replace sys.stdout in this process
    try:
        ctx = explore.replay(ph[0], body['choices'], tier)
    finally:
        sys.stdout = real_out
    known = load_known(pid)
    bad = 0
    for l in ctx.log[-40:]:
        print('  op:', l)
    for sig, detail in ctx.fails:
        hit = [k for k in known if matches(k['match'], sig)]
        if hit:
            print('KNOWN-FINDING: property=%s %s' % (pid, hit[0]['what']))
        else:
            bad += 1
            print('VIOLATION property=%s replay=%s' % (pid, path))
        print('   signature=%s' % json.dumps(_jsonable(sig), sort_keys=True))
        for k, v in detail.items():
            print('   %s: %s' % (k, _printable(str(v)[:1500])))
    if not ctx.fails:
        print('replay: no failure reproduced')
    return 1 if bad else 0
