#!/venv/bin/python
"""run.py <property id> [--tier quick|thorough] [--replay <path>] [--workers N]

Exit 0: property held on everything explored (known findings are printed).
Exit 1: at least one `VIOLATION property=<id> replay=<path>` line was printed.
Exit 2: harness error (nondeterminism, import failure, ...): never a pass.
"""
import os
import sys

HERE = os.path.dirname(os.path.abspath(__file__))
REPO = os.environ.get('PEDAL_REPO', '/repo')

if os.environ.get('PYTHONHASHSEED') != '0' or os.environ.get('PEDAL_VERIF_REEXEC') != '1':
    env = dict(os.environ)
    env['PYTHONHASHSEED'] = '0'
    env['PYTHONDONTWRITEBYTECODE'] = '1'
    env['PEDAL_VERIF_REEXEC'] = '1'
    env['PEDAL_EDU_PEDAL_VERIF'] = '1'
    env['PYTHONPATH'] = REPO + os.pathsep + HERE
    env['PYTHONWARNINGS'] = 'ignore'
    os.execve(sys.executable, [sys.executable] + sys.argv, env)

sys.path.insert(0, HERE)
sys.path.insert(0, REPO)

import argparse
import importlib
import json
import time
import warnings

warnings.filterwarnings('ignore')


def main():
    ap = argparse.ArgumentParser()
    ap.add_argument('prop')
    ap.add_argument('--tier', default=os.environ.get('VERIF_TIER', 'quick'), choices=['quick', 'thorough'])
    ap.add_argument('--replay')
    ap.add_argument('--workers', type=int, default=None)
    ap.add_argument('--phase', default=None, help='run only phases whose name contains this')
    ap.add_argument('--no-evidence', action='store_true')
    args = ap.parse_args()
    pid = args.prop.upper()
    try:
        seed = int(os.environ.get('VERIF_SEED', '0'))
    except ValueError:
        seed = 0

    from mc import explore, report
    sys.stdin = open(os.devnull)
    if args.replay:
        args.replay = os.path.abspath(args.replay)
    # student programs of the alphabets may try to create files (that is one of the things the sandbox must stop):
    # whatever gets through lands in a scratch directory, not in /verif
    scratch = os.path.join(os.path.dirname(os.path.abspath(__file__)), '.work', 'cwd')
    os.makedirs(scratch, exist_ok=True)
    os.chdir(scratch)
    import pedal
    if not os.path.realpath(pedal.__file__).startswith(os.path.realpath(REPO) + os.sep):
        print('HARNESS-ERROR: pedal imported from %s, not from %s' % (pedal.__file__, REPO))
        sys.exit(2)
    try:
        mod = importlib.import_module('checks.' + pid.lower())
    except Exception:
        import traceback
        traceback.print_exc()
        print('HARNESS-ERROR: cannot import check for %s' % pid)
        sys.exit(2)

    real_out = sys.stdout        # a check's setup may replace sys.stdout in this process (serial phases, replays)
    if args.replay:
        sys.exit(report.do_replay(mod, pid, args.replay))

    t0 = time.time()
    phases = mod.phases(args.tier)
    if args.phase:
        phases = [p for p in phases if args.phase in p.name]

    def progress(ph, res):
        print('[%s] phase %-28s execs=%-8d states=%-7d outcomes=%-5d fail-classes=%d  %.1fs%s' % (
            pid, ph.name, res.executions, len(res.states), len(res.outcomes), len(res.failures),
            res.wall_s, '  CAP-HIT' if res.cap_hit else ''), flush=True, file=real_out)

    results = explore.run_phases(phases, args.tier, args.workers, progress)
    sys.stdout = real_out
    code = report.finish(mod, pid, args.tier, seed, phases, results, time.time() - t0,
                         write_evidence=not args.no_evidence and not args.phase)
    sys.exit(code)


if __name__ == '__main__':
    main()
